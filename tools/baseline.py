#!/usr/bin/env python3
"""Runs the repository's pinned baseline (guard OFF, Keras 3 default) in REPO (default /repo) and compares
with /root/.vp/BASELINE.json: every stable_pass test must still pass.  Usage: baseline.py [repo_dir]"""
import json, os, subprocess, sys, tempfile, xml.etree.ElementTree as ET
repo = sys.argv[1] if len(sys.argv) > 1 else "/repo"
base = json.load(open("/root/.vp/BASELINE.json"))
out = tempfile.mktemp(suffix=".xml", dir="/var/tmp")
env = {k: v for k, v in os.environ.items() if k not in ("TF_USE_LEGACY_KERAS", "QKERAS_VERIF", "PYTHONPATH")}
env["PYTHONPATH"] = repo
r = subprocess.run(["/venv/bin/python", "-m", "pytest", "-q", "-p", "no:cacheprovider", "--timeout=900",
                    "--continue-on-collection-errors", "-x" if False else "-q", "--junitxml=" + out] + sys.argv[2:],
                   cwd=repo, env=env, capture_output=True, text=True)
passed = set()
for tc in ET.parse(out).getroot().iter("testcase"):
  if not list(tc):
    passed.add(tc.get("classname") + "::" + tc.get("name"))
os.remove(out)
want = set(base["stable_pass"])
if len(sys.argv) > 2:
  print("passed", len(passed)); sys.exit(0)
missing = sorted(want - passed)
print("baseline: %d/%d stable tests pass; extra passing: %d" % (len(want & passed), len(want), len(passed - want)))
for m in missing[:20]:
  print("  NOW FAILING:", m)
sys.exit(1 if missing else 0)
