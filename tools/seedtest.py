#!/usr/bin/env python3
"""Confirms one seeded change and runs the registered check against it.

usage: seedtest.py <dir with patch.diff + demo.py> <PROPERTY-ID> [--skip-baseline] [--tier quick]

1. scratch worktree of /repo HEAD under /tmp: demo passes pristine, fails with the patch; the repository's baseline
   (90 stable tests, Keras 3 default) still passes with the patch;
2. patch applied to /repo itself (git apply), `./check <ID>` run, /repo restored (git checkout -- .) whatever happens.
Prints a JSON summary line at the end.
"""
import json, os, subprocess, sys, shutil, time
d = os.path.abspath(sys.argv[1]); pid = sys.argv[2]
skip_base = "--skip-baseline" in sys.argv
tier = sys.argv[sys.argv.index("--tier") + 1] if "--tier" in sys.argv else "quick"
patch = os.path.join(d, "patch.diff"); demo = os.path.join(d, "demo.py")
# a change written against an older HEAD whose context was touched by a later fix: commit: patch_rebased.diff is the same
# change re-applied by hand on the current HEAD
if os.path.exists(os.path.join(d, "patch_rebased.diff")) and subprocess.run(
    "git -C /repo apply --check %s" % patch, shell=True, capture_output=True).returncode != 0:
  patch = os.path.join(d, "patch_rebased.diff")
env = dict(os.environ, TF_USE_LEGACY_KERAS="1", TF_CPP_MIN_LOG_LEVEL="3", CUDA_VISIBLE_DEVICES="",
           PROTOCOL_BUFFERS_PYTHON_IMPLEMENTATION="python", PYTHONWARNINGS="ignore")
wt = "/tmp/seedwt_%s_%d" % (pid, os.getpid())
def sh(cmd, **kw): return subprocess.run(cmd, shell=True, capture_output=True, text=True, **kw)
res = {"dir": d, "property": pid, "patch_file": os.path.basename(patch),
       "base_commit": subprocess.run("git -C /repo rev-parse --short HEAD", shell=True, capture_output=True, text=True).stdout.strip()}
sh("git -C /repo worktree add -f %s HEAD" % wt)
try:
  e2 = dict(env, PYTHONPATH=wt)
  r0 = sh("/venv/bin/python %s" % demo, cwd=wt, env=e2); res["demo_pristine_exit"] = r0.returncode
  a = sh("git -C %s apply %s" % (wt, patch)); res["apply_ok"] = a.returncode == 0
  if a.returncode: res["apply_err"] = a.stderr[-300:]
  r1 = sh("/venv/bin/python %s" % demo, cwd=wt, env=e2); res["demo_patched_exit"] = r1.returncode
  res["demo_patched_tail"] = (r1.stdout + r1.stderr)[-300:]
  if not skip_base:
    b = sh("python3 /verif/tools/baseline.py %s" % wt); res["baseline_ok"] = b.returncode == 0; res["baseline"] = b.stdout.strip()[-200:]
finally:
  sh("git -C /repo worktree remove --force %s" % wt); shutil.rmtree(wt, ignore_errors=True)
# --scratch <worktree>: development triage against a scratch worktree (VERIF_REPO) instead of /repo itself, so that several
# seeds can be tried while /repo is busy; the recorded run (meta.json) is always the one against /repo
target = sys.argv[sys.argv.index("--scratch") + 1] if "--scratch" in sys.argv else "/repo"
res["target"] = target
st = sh("git -C %s status --short" % target).stdout.strip()
assert not st, target + " is not clean: " + st
a = sh("git -C %s apply %s" % (target, patch))
try:
  t0 = time.time()
  c = sh("cd /verif && VERIF_REPO=%s ./check %s --tier %s" % (target, pid, tier))
  res["check_exit"] = c.returncode; res["check_wall"] = round(time.time() - t0)
  lines = [l for l in c.stdout.split("\n") if l.startswith("VIOLATION") or "signature:" in l or l.startswith("HARNESS")]
  res["check_lines"] = lines[:8]
  if "--also" in sys.argv:
    # a second registered check run against the same patched tree (for a change that sits outside the anchors of the
    # property it was written for and is another property's business)
    other = sys.argv[sys.argv.index("--also") + 1]
    c2 = sh("cd /verif && VERIF_REPO=%s ./check %s --tier %s" % (target, other, tier))
    res["also_check"] = {"id": other, "exit": c2.returncode,
                         "lines": [l for l in c2.stdout.split("\n") if l.startswith("VIOLATION") or "signature:" in l][:6]}
finally:
  sh("git -C %s checkout -- ." % target); sh("git -C %s clean -fdq qkeras" % target)
res["repo_clean"] = not sh("git -C %s status --short" % target).stdout.strip()
print(json.dumps(res, indent=1))
