#!/usr/bin/env python3
"""Records, for every OPEN finding of a property, the exact set of inputs that fail with its signature on the current
(unchanged) tree, into /verif/findings/<ID>/<sha1(key)[:12]>.txt (one input identifier per line), and links the file
from the entry in known_findings.json ("instances").  From then on the check treats the finding as known only for those
inputs; the same signature on any other input is reported as a VIOLATION.

This tool is run by hand after a finding has been analysed; checks never write these files.

usage: record_instances.py <ID> [--tiers quick,thorough] [--seeds 0,1,2,3,4,5,6,7] [--repo /repo]
The recorded set is the union over the given tiers and seeds (the seed only selects one of 8 fixed tensor permutations).
"""
import hashlib, json, os, subprocess, sys, tempfile
pid = sys.argv[1]
def opt(name, default):
  return sys.argv[sys.argv.index(name) + 1] if name in sys.argv else default
tiers = opt("--tiers", "quick").split(",")
seeds = [int(x) for x in opt("--seeds", "0,1,2,3,4,5,6,7").split(",")]
repo = opt("--repo", "/repo")
assert not subprocess.run(["git", "-C", repo, "status", "--short"], capture_output=True, text=True).stdout.strip(), "tree not clean"
union = {}
for tier in tiers:
  for seed in seeds:
    dump = tempfile.mktemp(suffix=".json", dir="/var/tmp")
    env = dict(os.environ, VERIF_SEED=str(seed), VERIF_DUMP_INSTANCES=dump, VERIF_REPO=repo)
    r = subprocess.run(["/verif/check", pid, "--tier", tier], env=env, capture_output=True, text=True, cwd="/verif")
    last = [l for l in r.stdout.split("\n") if l.startswith(pid + " ")]
    print(tier, seed, "exit", r.returncode, last[-1][:160] if last else r.stdout[-300:])
    if os.path.exists(dump):
      for k, v in json.load(open(dump)).items():
        union.setdefault(k, set()).update(v)
      os.remove(dump)
path = "/verif/known_findings.json"
data = json.load(open(path))
for e in data["findings"]:
  if e["property"] != pid or e["status"] != "open":
    continue
  got = union.get(e["key"])
  if not got:
    print("not observed:", e["key"])
    continue
  rel = "findings/%s/%s.txt" % (pid, hashlib.sha1(e["key"].encode()).hexdigest()[:12])
  full = os.path.join("/verif", rel)
  os.makedirs(os.path.dirname(full), exist_ok=True)
  old = set(l.rstrip("\n") for l in open(full)) if os.path.exists(full) and "--replace" not in sys.argv else set()
  allv = sorted(old | got)
  with open(full, "w") as f:
    f.write("\n".join(allv) + "\n")
  e["instances"] = rel
  e["instances_recorded"] = {"tiers": tiers, "seeds": seeds, "count": len(allv)}
  print("recorded %5d inputs for %s" % (len(allv), e["key"]))
json.dump(data, open(path, "w"), indent=1)
