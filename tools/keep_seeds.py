#!/usr/bin/env python3
"""Copies confirmed seeded changes from /tmp/seed_<ID>/<ID>_<n>/ (+ /tmp/seedres/<ID>_<n>.json written by
seedtest.py) into /verif/seeded/<ID>_<n>/ and regenerates /verif/seeded/INDEX.md.  A change is kept only if the
demonstration passes on the pristine tree, fails with the patch, and the repository's 90-test baseline still passes."""
import glob, json, os, re, shutil, sys
root = "/verif/seeded"
os.makedirs(root, exist_ok=True)
for res in sorted(glob.glob("/tmp/seedres/C*_*.json")):
  name = os.path.basename(res)[:-5]
  try:
    r = json.load(open(res))
  except Exception as e:
    print("unreadable", res, e); continue
  src = r["dir"]
  ok = r.get("demo_pristine_exit") == 0 and r.get("demo_patched_exit") not in (0, None) and r.get("baseline_ok") and r.get("apply_ok")
  if not ok:
    print("NOT confirmed:", name, {k: r.get(k) for k in ("demo_pristine_exit", "demo_patched_exit", "baseline_ok", "apply_ok")}); continue
  dst = os.path.join(root, name)
  os.makedirs(dst, exist_ok=True)
  for f in ("patch.diff", "patch_rebased.diff", "demo.py", "notes.md"):
    if os.path.exists(os.path.join(src, f)):
      shutil.copy(os.path.join(src, f), os.path.join(dst, f))
  notes = open(os.path.join(dst, "notes.md")).read() if os.path.exists(os.path.join(dst, "notes.md")) else ""
  sigs = [l.strip() for l in r.get("check_lines", []) if "signature:" in l]
  meta_path = os.path.join(dst, "meta.json")
  old = json.load(open(meta_path)) if os.path.exists(meta_path) else {}
  meta = {
      "property": r["property"],
      "repo_commit_checked_against": r.get("base_commit", "d83af77"),
      "patch_file_used": r.get("patch_file", "patch.diff"),
      "origin": "independent sub-agent given only the property text and a scratch worktree",
      "needs_to_manifest": old.get("needs_to_manifest") or notes.strip().replace("\n", " ")[:900],
      "confirmed": {"demo_exit_pristine": r["demo_pristine_exit"], "demo_exit_patched": r["demo_patched_exit"],
                    "baseline_90_tests_still_pass": True,
                    "ran": ["tools/seedtest.py: scratch worktree of /repo HEAD, demo.py with and without patch.diff under "
                            "TF_USE_LEGACY_KERAS=1, tools/baseline.py on the patched worktree",
                            "git -C /repo apply patch.diff; ./check %s --tier quick; git -C /repo checkout -- ." % r["property"]]},
      "check_result": {"exit": r.get("check_exit"), "caught": r.get("check_exit") == 1, "signatures": sigs[:6],
                       "wall_s": r.get("check_wall")},
      "also_check": r.get("also_check"),
  }
  meta.update({k: v for k, v in old.items() if k in ("caught_after_strengthening", "history")})
  hist_all = json.load(open(os.path.join(root, "history.json"))) if os.path.exists(os.path.join(root, "history.json")) else {}
  if name in hist_all:
    meta["history"] = "missed by the check as it stood when the change was written; caught after strengthening: " + hist_all[name]
    meta["caught_after_strengthening"] = True
  json.dump(meta, open(meta_path, "w"), indent=1)
rows = []
for d in sorted(glob.glob(os.path.join(root, "C*_*"))):
  m = json.load(open(os.path.join(d, "meta.json")))
  c = m["check_result"]
  first = open(os.path.join(d, "notes.md")).read().strip().split("\n") if os.path.exists(os.path.join(d, "notes.md")) else [""]
  title = next((l.strip("# ").strip() for l in first if l.strip()), "")
  status = ("caught (after strengthening the check)" if m.get("caught_after_strengthening") else "caught") if c["caught"] else "MISSED"
  ac = m.get("also_check")
  if not c["caught"] and ac and ac.get("exit") == 1:
    status = "not this property's check; caught by %s%s" % (ac["id"], " (after strengthening)" if m.get("caught_after_strengthening") else "")
    c = dict(c, signatures=[l.strip() for l in ac.get("lines", []) if "signature:" in l])
  rows.append("| %s | %s | %s | %s | %s |" % (os.path.basename(d), m["property"], title[:110].replace("|", "/"), status,
                                             "; ".join(s.replace("signature: ", "") for s in c["signatures"][:2])[:160].replace("|", "/")))
open(os.path.join(root, "INDEX.md"), "w").write(
    "# Seeded property-breaking changes\n\nEach directory holds patch.diff (never committed to /repo), demo.py, notes.md (the sub-agent's "
    "description) and meta.json.\n\n| change | property | what | registered quick check | first signatures |\n|---|---|---|---|---|\n" + "\n".join(rows) + "\n")
print("kept:", len(rows))
