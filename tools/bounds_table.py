#!/usr/bin/env python3
"""Prints the markdown table of DESIGN.md section 9.2 from /verif/evidence/*.json (the evidence of the last runs) and
the property modules' bound() descriptions.  usage: bounds_table.py [--write]  (--write replaces the table in DESIGN.md
between the markers <!-- bounds-table --> and <!-- /bounds-table -->)"""
import glob, json, os, re, sys
rows = ["| id | tier | cases | states | transitions | element decisions | non-trivial | known / new | wall |",
        "|---|---|---|---|---|---|---|---|---|"]
for f in sorted(glob.glob("/verif/evidence/C*.json")):
  e = json.load(open(f))
  c = e["coverage"]
  rows.append("| %s | %s | %d | %d | %d | %d | %d | %d / %d | %.0f s |" % (
      e["property_id"], e["tier"], c.get("cases_enumerated", 0), c.get("states", 0), c.get("transitions", 0),
      c.get("evaluations", 0), c.get("distinct_nontrivial", 0), len(c.get("known_findings_observed", [])),
      len(c.get("new_violation_signatures", [])), e.get("wall_s", 0)))
table = "\n".join(rows)
if "--write" in sys.argv:
  p = "/verif/DESIGN.md"
  s = open(p).read()
  s = re.sub(r"<!-- bounds-table -->.*?<!-- /bounds-table -->", "<!-- bounds-table -->\n" + table + "\n<!-- /bounds-table -->", s, flags=re.S)
  open(p, "w").write(s)
print(table)
