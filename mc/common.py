"""Helpers shared by the property modules: TF start-up, digests, float32 alphabets."""
import hashlib
import itertools
import os

import numpy as np

F32 = np.float32
_TF = None


def tf_init():
  """Imports TensorFlow + qkeras once per worker and pins down the runtime (DESIGN section 1)."""
  global _TF
  if _TF is not None:
    return _TF
  assert os.environ.get("TF_USE_LEGACY_KERAS") == "1", "run through /verif/check"
  import tensorflow as tf  # pylint: disable=import-outside-toplevel
  try:
    tf.config.threading.set_intra_op_parallelism_threads(1)
    tf.config.threading.set_inter_op_parallelism_threads(1)
  except RuntimeError:
    pass
  import qkeras  # pylint: disable=import-outside-toplevel
  assert os.path.realpath(qkeras.__file__).startswith(os.environ.get("VERIF_REPO", "/repo") + "/"), qkeras.__file__
  _TF = tf
  return tf


def reset_keras():
  tf = tf_init()
  tf.keras.backend.clear_session()
  try:
    tf.keras.backend.reset_uids()
  except Exception:  # pylint: disable=broad-except
    pass
  from qkeras import quantizers  # pylint: disable=import-outside-toplevel
  quantizers.set_internal_sigmoid("hard")
  tf.keras.backend.set_learning_phase(0)
  tf.keras.backend.set_image_data_format("channels_last")


def digest(*objs):
  h = hashlib.sha256()
  for o in objs:
    if isinstance(o, np.ndarray):
      h.update(str(o.dtype).encode() + str(o.shape).encode())
      h.update(np.ascontiguousarray(o).tobytes())
    else:
      h.update(repr(o).encode())
  return h.hexdigest()[:16]


def ulps(v, n=2):
  """v and its +-1..n float32 neighbours."""
  v = F32(v)
  out = [v]
  up = dn = v
  for _ in range(n):
    up = np.nextafter(up, F32(np.inf), dtype=F32)
    dn = np.nextafter(dn, F32(-np.inf), dtype=F32)
    out += [up, dn]
  return out


def a_fix(step, lo, hi, extra_margin=3, big=True):
  """Breakpoint alphabet of a fixed-point format with codes lo..hi and the given step
  (DESIGN 2.3): every code point and every rounding midpoint, each with +-2 ulp, three codes
  beyond both saturation edges, zeros / denormals / FLT_MIN, and the 2^23 / 2^24-1 step horizon."""
  vals = []
  for k in range(lo - extra_margin, hi + extra_margin + 1):
    vals += ulps(k * step, 2)
    vals += ulps((k + 0.5) * step, 2)
  vals += [F32(0.0), F32(-0.0)]
  tiny = np.nextafter(F32(0), F32(1), dtype=F32)
  vals += [tiny, -tiny, np.finfo(F32).tiny, -np.finfo(F32).tiny]
  vals += ulps(np.finfo(F32).tiny, 1) + ulps(-np.finfo(F32).tiny, 1)
  if big:
    for mag in (2.0 ** 23 * step, (2.0 ** 24 - 1) * step, 2.0 ** 22 * step + step / 2,
                1000.0 * step * max(1, hi - lo)):
      vals += [F32(mag), F32(-mag)]
  a = np.array(vals, dtype=F32)
  a = a[np.isfinite(a)]
  return np.unique(a)   # sorted ascending, -0.0/+0.0 merged by np.unique (both compare equal)


def a_po2(min_exp, max_exp, max_value=None):
  vals = []
  r2 = np.sqrt(2.0)
  for e in range(min_exp - 3, max_exp + 4):
    vals += ulps(2.0 ** e, 3)
    vals += ulps(r2 * 2.0 ** e, 3)
    vals += [F32(1.25 * 2.0 ** e), F32(1.75 * 2.0 ** e)]
  if max_value is not None:
    vals += ulps(max_value, 3)
  vals += ulps(1e-7, 3)
  tiny = np.nextafter(F32(0), F32(1), dtype=F32)
  vals += [F32(0.0), tiny, np.finfo(F32).tiny, F32(1e-20), F32(1e20)]
  a = np.array(vals, dtype=F32)
  a = a[np.isfinite(a) & (a >= 0)]
  a = np.unique(a)
  return np.unique(np.concatenate([-a, a]))


def pad_to(a, mult, fill=None):
  n = len(a)
  r = (-n) % mult
  if r == 0:
    return a
  f = a[-1] if fill is None else fill
  return np.concatenate([a, np.full(r, f, dtype=a.dtype)])


def rank_views(a):
  """The same values as rank 1..4 tensors (element-wise quantizers must not care)."""
  b = pad_to(a, 24)
  n = len(b)
  return [b, b.reshape(n // 4, 4), b.reshape(n // 12, 3, 4), b.reshape(n // 24, 2, 3, 4)]


def dev_product(axes, k, valid=None):
  """Deviation-bounded product (DESIGN 2.1): all configurations differing from the default
  (first value of every axis) in at most k axes; k=None is the full product.  Axes is an ordered
  dict name -> list of values, default first.  Simplest first."""
  names = list(axes)
  out = []
  if k is None or k >= len(names):
    for combo in itertools.product(*[axes[n] for n in names]):
      c = dict(zip(names, combo))
      if valid is None or valid(c):
        out.append(c)
    return out
  default = {n: axes[n][0] for n in names}
  seen = set()
  for d in range(0, k + 1):
    for subset in itertools.combinations(names, d):
      for combo in itertools.product(*[axes[n][1:] for n in subset]):
        c = dict(default)
        c.update(dict(zip(subset, combo)))
        key = repr(sorted(c.items(), key=lambda kv: kv[0]))
        if key in seen:
          continue
        seen.add(key)
        if valid is None or valid(c):
          out.append(c)
  return out


def f32_ulp(x):
  x = np.abs(np.asarray(x, dtype=F32))
  return (np.nextafter(x, F32(np.inf), dtype=F32) - x).astype(np.float64)


# ---------------------------------------------------------------------------------------------
# Tensor alphabet T(shape, pattern) of DESIGN 2.3: a fixed finite list of value patterns; the seed
# only selects one of 8 fixed permutations of the values over positions.
PATTERNS = ["grid7", "ramp", "signs", "zero_channel", "zeros", "huge", "tiny", "one_hot_max"]
# "bell" (not in PATTERNS: requested explicitly): normal quantiles x 0.3, always permuted - a weight distribution on which a
# low-bit data-dependent power-of-two scale is NOT idempotent (re-quantizing the quantized tensor picks another scale)
_SIGN_VALUES = None


def _sign_values():
  global _SIGN_VALUES
  if _SIGN_VALUES is None:
    v = []
    for t in (0.1, 0.33, 0.5, 1.0):
      v += ulps(t, 1) + ulps(-t, 1)
    v += [F32(0.0), F32(-0.0), F32(0.75), F32(-0.75), F32(0.2), F32(-0.2), F32(3.0), F32(-3.0)]
    _SIGN_VALUES = np.array(v, dtype=F32)
  return _SIGN_VALUES


def tensor(shape, pattern, seed=0):
  n = int(np.prod(shape))
  i = np.arange(n)
  if pattern == "grid7":
    v = (((i * 7 + 3) % 15) - 7) / 7.0
  elif pattern == "ramp":
    v = (i - (n - 1) / 2.0) / max(1.0, n / 4.0) + 0.013
  elif pattern == "signs":
    sv = _sign_values()
    v = sv[(i * 7 + 1) % len(sv)]
  elif pattern in ("zero_channel", "zeros"):
    v = (((i * 7 + 3) % 15) - 7) / 7.0
  elif pattern == "huge":
    v = ((((i * 7 + 3) % 15) - 7) / 7.0) * 1e6
  elif pattern == "tiny":
    v = ((((i * 7 + 3) % 15) - 7) / 7.0) * 1e-6
  elif pattern == "one_hot_max":
    v = ((((i * 3 + 1) % 11) - 5) / 50.0)
  elif pattern in ("ladder_a", "ladder_b"):
    # per-channel (last axis) magnitudes at powers of two whose exponents are where float32 exp/log round trips are
    # inexact (|e| = 13, 15, 26, 30) next to exact ones: a data-dependent power-of-two scale must stay an exact power
    exps = [13, -13, 15, -15, 26, 12] if pattern == "ladder_a" else [-26, 30, -30, -12, 14, -14]
    c = shape[-1] if len(shape) else 1
    base = np.where((((i * 7 + 3) % 15) - 7) < 0, -1.0, 1.0)     # unit magnitudes: the least-squares scale IS 2^e
    v = base * np.array([2.0 ** exps[(j % c) % len(exps)] for j in range(n)])
    seed = 0                     # the channel is the position in the last axis: no permutation
  elif pattern == "bell":
    from scipy.stats import norm  # pylint: disable=import-outside-toplevel
    v = norm.ppf((i + 0.5) / n) * 0.3
  else:
    raise ValueError(pattern)
  v = np.asarray(v, dtype=F32)
  if pattern == "bell":
    perm = np.random.RandomState(1001 + (seed % 8)).permutation(n)     # always permuted
  else:
    perm = np.random.RandomState(1000 + (seed % 8)).permutation(n) if seed % 8 else np.arange(n)
  v = v[perm].reshape(shape)
  if pattern == "zeros":
    v = np.zeros(shape, dtype=F32)
  if pattern == "zero_channel":
    v = v.copy()
    v[..., 0] = 0.0
    if len(shape) > 1 and shape[0] > 1:
      v[0, ...] *= F32(0.5)
  if pattern == "one_hot_max":
    v = v.copy()
    flat = v.reshape(-1, shape[-1]) if len(shape) > 1 else v.reshape(1, -1)
    for c in range(flat.shape[1]):
      flat[(c * 3) % flat.shape[0], c] = F32(1.5 + c)
    v = flat.reshape(shape)
  return np.ascontiguousarray(v, dtype=F32)


SHAPES_A = {1: (4,), 2: (3, 4), 3: (2, 3, 4), 4: (2, 2, 3, 4)}
SHAPES_B = {1: (8,), 2: (4, 8), 3: (2, 4, 8), 4: (2, 2, 4, 8)}


def group_ids(shape, scale_axis, eps):
  """Independent model of 'which elements share one scale' (C04/C05): one scale per index (or per
  block of `eps` consecutive indices) along the scale axes, shared over every other axis.  scale_axis
  None = last axis (channels_last).  Returns an int array of group ids of the given shape."""
  r = len(shape)
  if scale_axis is None:
    axes = [r - 1]
  elif isinstance(scale_axis, int):
    axes = [scale_axis]
  else:
    axes = list(scale_axis)
  if eps is None:
    e = [1] * len(axes)
  elif isinstance(eps, int):
    e = [eps] * len(axes)
  else:
    e = list(eps)
  idx = np.indices(shape)
  gid = np.zeros(shape, dtype=np.int64)
  for a, k in zip(axes, e):
    gid = gid * (shape[a] // k + 1) + idx[a] // k
  return gid
