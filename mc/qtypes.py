"""Value-set denotation of qtools data types (the MODEL of C16-C18) and its conformance replay.

A qtools type T = (mode, is_signed, bits, int_bits | max_val_po2) denotes a finite set vals(T) of dyadic
rationals.  All arithmetic below is exact: every value is k*2^e with |k| < 2^53, so float64 holds it
exactly (checked by assert on the bit budget).

  fixed point (mode 0): { k * 2^-(bits - is_signed - int_bits) : k two's complement of `bits` bits }
  power of two (mode 1): { (+/-) 2^e : -2^(n-1) <= e <= min(2^(n-1)-1, ceil(log2 max_val)) } , n = bits - is_signed
  ternary (2): {-1,0,1}   binary (3): {-1,+1}   binary01 (4): {0,1}   float (5): everything
"""
import math

import numpy as np


class Den:
  """Denotation of one type."""

  def __init__(self, kind, **kw):
    self.kind = kind
    self.__dict__.update(kw)

  def __repr__(self):
    d = {k: v for k, v in self.__dict__.items() if k != "kind"}
    return "%s%r" % (self.kind, d)


def den(T):
  """Denotation from the fields of a qtools IQuantizer object (raw convention: int_bits excludes the sign)."""
  if getattr(T, "is_floating_point", False) or T.mode == 5:
    return Den("float", bits=int(T.bits))
  mode = T.mode
  signed = int(bool(T.is_signed))
  if getattr(T, "is_po2", 0) or mode == 1:
    n = int(T.bits) - signed
    if n < 1:
      return Den("empty")
    emin = -2 ** (n - 1)
    emax = 2 ** (n - 1) - 1
    mv = T.max_val_po2
    # qtools' own rule (get_exp) for the bits left of the binary point: max(0, min(ceil(log2 max_val), emax)).
    # For a max_val that is not a power of two the type therefore reaches 2^ceil(log2 max_val) > max_val - which is what
    # the quantizers emit (they round the exponent of the clipped value: max_value=3 gives 4).
    # The VALUES the type holds are bounded by 2^ceil(log2 max_val) as well (get_exp's max(0, .) only says that no integer
    # bits are needed below 1).
    if mv != -1:
      emax = 0 if mv <= 0 else min(int(math.ceil(math.log2(mv))), emax)
      emax = max(0, emax)
      if mv > 0:
        emax = min(emax, int(math.ceil(math.log2(mv))))
    if emax < emin:
      return Den("empty")
    return Den("po2", signed=signed, emin=int(emin), emax=int(emax))
  if mode == 2:
    return Den("set", values=(-1.0, 0.0, 1.0))
  if mode == 3:
    return Den("set", values=(-1.0, 1.0))
  if mode == 4 and int(T.bits) == 1:
    return Den("set", values=(0.0, 1.0))
  bits, ib = int(T.bits), int(T.int_bits)
  # binary / ternary types (and everything the library derives from them) carry int_bits == bits, i.e. their
  # int_bits count the sign: a type whose int_bits exceed bits - is_signed denotes an integer type
  ib = min(ib, bits - signed)
  frac = bits - signed - ib
  if signed:
    kmin, kmax = -2 ** (bits - 1), 2 ** (bits - 1) - 1
  else:
    kmin, kmax = 0, 2 ** bits - 1
  return Den("fixed", signed=signed, bits=bits, int_bits=ib, frac=frac, kmin=kmin, kmax=kmax)


def contains(d, v):
  """Vectorised exact membership of float64 dyadic values."""
  v = np.asarray(v, dtype=np.float64)
  if d.kind == "float":
    return np.ones(v.shape, dtype=bool)
  if d.kind == "empty":
    return np.zeros(v.shape, dtype=bool)
  if d.kind == "set":
    return np.isin(v, np.asarray(d.values))
  if d.kind == "po2":
    a = np.abs(v)
    m, e = np.frexp(np.where(a > 0, a, 1.0))
    ok = (a > 0) & (m == 0.5) & (e - 1 >= d.emin) & (e - 1 <= d.emax)
    if not d.signed:
      ok &= v > 0
    return ok
  k = v * 2.0 ** d.frac
  return (k == np.round(k)) & (k >= d.kmin) & (k <= d.kmax)


def extremes(d):
  """(min, max, smallest positive magnitude) of the value set."""
  if d.kind == "empty":
    return 0.0, 0.0, 0.0
  if d.kind == "set":
    pos = [x for x in d.values if x > 0]
    return min(d.values), max(d.values), min(pos)
  if d.kind == "po2":
    return (-2.0 ** d.emax if d.signed else 2.0 ** d.emin), 2.0 ** d.emax, 2.0 ** d.emin
  lsb = 2.0 ** -d.frac
  return d.kmin * lsb, d.kmax * lsb, lsb


def enumerate_values(d, cap=4096):
  if d.kind == "empty":
    return np.zeros(0)
  if d.kind == "set":
    return np.asarray(d.values, dtype=np.float64)
  if d.kind == "po2":
    mags = 2.0 ** np.arange(d.emin, d.emax + 1, dtype=np.float64)
    return np.concatenate([-mags[::-1], mags]) if d.signed else mags
  if d.kind == "fixed":
    n = d.kmax - d.kmin + 1
    if n > cap:
      return None
    return np.arange(d.kmin, d.kmax + 1, dtype=np.float64) * 2.0 ** -d.frac
  return None


def size(d):
  if d.kind == "set":
    return len(d.values)
  if d.kind == "po2":
    return (d.emax - d.emin + 1) * (2 if d.signed else 1)
  if d.kind == "fixed":
    return d.kmax - d.kmin + 1
  return 0


def lsb_exp(d):
  """log2 of the finest resolution the type can express (None for float)."""
  if d.kind == "fixed":
    return -d.frac
  if d.kind == "po2":
    return d.emin
  if d.kind == "set":
    return 0
  return None


# ------------------------------------------------------------------------------------------------
# operand types, built through the REAL conversion path (qkeras quantizer -> QuantizerFactory)

def operand_specs(max_fixed_bits=16, po2_bits=(2, 8)):
  specs = []
  for bits in range(1, max_fixed_bits + 1):
    for ib in range(0, bits):
      specs.append(("qb", bits, ib))          # quantized_bits(bits, ib, keep_negative)
    for ib in range(0, bits + 1):
      specs.append(("qr", bits, ib))          # quantized_relu(bits, ib)
  for bits in range(po2_bits[0], po2_bits[1] + 1):
    for mv in (None, 0.25, 0.5, 1.0, 2.0, 4.0, 8.0, 16.0):
      specs.append(("po2", bits, mv))
      specs.append(("rpo2", bits, mv))
  specs += [("ternary",), ("binary",), ("binary01",), ("sternary",), ("sbinary",), ("bernoulli",), ("float",), ("float16",)]
  return specs


def make_qkeras(spec):
  from qkeras import quantizers as Q  # pylint: disable=import-outside-toplevel
  k = spec[0]
  if k == "qb":
    return Q.quantized_bits(spec[1], spec[2], 0, keep_negative=True)
  if k == "qr":
    return Q.quantized_relu(spec[1], spec[2])
  if k == "po2":
    return Q.quantized_po2(spec[1], max_value=spec[2])
  if k == "rpo2":
    return Q.quantized_relu_po2(spec[1], max_value=spec[2])
  if k == "ternary":
    return Q.ternary()
  if k == "binary":
    return Q.binary()
  if k == "binary01":
    return Q.binary(use_01=True)
  if k == "sternary":
    return Q.stochastic_ternary()
  if k == "sbinary":
    return Q.stochastic_binary()
  if k == "bernoulli":
    return Q.bernoulli()
  return None


def make_type(spec):
  from qkeras.qtools.quantized_operators import quantizer_factory  # pylint: disable=import-outside-toplevel
  qf = quantizer_factory.QuantizerFactory()
  if spec[0] == "float":
    return qf.make_default_quantizer("fp32")
  if spec[0] == "float16":
    return qf.make_default_quantizer("fp16")
  return qf.make_quantizer(make_qkeras(spec))


def kind_of(T):
  """Operand kind as qtools itself classifies the type (its dispatch mode)."""
  if getattr(T, "is_floating_point", False):
    return "float"
  return {0: "fixed", 1: "po2", 2: "ternary", 3: "binary", 4: "binary01", 5: "float"}[T.mode]
