"""Kernel H1: stateless choice-point explorer with a deviation bound (DESIGN 2.1).

The code under test runs against a Chooser; every source of nondeterminism the harness owns calls
chooser.pick(label, n).  run(prefix) replays the prefix and answers 0 afterwards.  explore() is the
classic DFS over (prefix, alternative); `bound` limits the number of non-default answers
(deviations) of an execution; bound=None exhausts the tree.  A replay whose labels diverge from
the recorded ones, or an out-of-range choice, is a hard harness error.
"""


class ReplayDivergence(RuntimeError):
  pass


class Chooser:

  def __init__(self, prefix=()):
    self.prefix = list(prefix)      # list of (label, n, choice)
    self.trace = []

  def pick(self, label, n):
    i = len(self.trace)
    if i < len(self.prefix):
      plabel, pn, c = self.prefix[i]
      if plabel != label or pn != n:
        raise ReplayDivergence("replay diverged at point %d: recorded %r/%d, now %r/%d" % (i, plabel, pn, label, n))
    else:
      c = 0
    if not 0 <= c < n:
      raise ReplayDivergence("choice %d out of range %d at %r" % (c, n, label))
    self.trace.append((label, n, c))
    return c

  def choices(self):
    return [c for (_, _, c) in self.trace]


def explore(run, bound=None, max_runs=None):
  """Yields (trace, result) for every execution within the deviation bound.  `run(chooser)` executes
  the system once.  Returns via StopIteration value (runs, capped)."""
  stack = [[]]
  runs = 0
  while stack:
    prefix = stack.pop()
    ch = Chooser(prefix)
    res = run(ch)
    runs += 1
    trace = ch.trace
    if len(trace) < len(prefix):
      raise ReplayDivergence("execution ended before its replay prefix was consumed")
    yield trace, res
    if max_runs is not None and runs >= max_runs:
      return
    dev = sum(1 for (_, _, c) in prefix if c != 0)
    if bound is not None and dev + 1 > bound:
      continue
    for i in range(len(trace) - 1, len(prefix) - 1, -1):
      for alt in range(trace[i][1] - 1, 0, -1):
        stack.append(trace[:i] + [(trace[i][0], trace[i][1], alt)])
