"""Configuration lattice, format denotation, alphabets and reference model of the fixed-point
quantizers (shared by C01, C02 and reused by C06/C07/C08).

A configuration is a plain dict; `fmt(cfg)` is the *specified* format, recomputed here from the
constructor arguments only (never read back from the quantizer object):

  step   distance between codes (already multiplied by a constant alpha)
  lo,hi  smallest / largest integer code
  sign   True for the 1-bit signed special cases whose two values are not k*step
  allowed  (sign mode only) the exact value set
"""
import numpy as np

from mc import common

F32 = np.float32
SLACK_PWL = 4 * 2.0 ** -23    # float32 evaluation of the piecewise-linear surrogates (value units)
SLACK_REAL = 16 * 2.0 ** -23  # float32 tanh / sigmoid of TensorFlow vs float64 numpy


def configs(max_bits, classes=None):
  out = []
  want = lambda c: classes is None or c in classes
  for bits in range(1, max_bits + 1):
    for cls in ("quantized_bits", "quantized_linear"):
      if not want(cls):
        continue
      for kn in (True, False):
        ints = range(0, bits + 2) if bits - kn > 0 else [0]
        for integer in ints:
          for sym in (0, 1):
            for alpha in (None, 1.0, 0.5, 2.0):
              out.append(dict(cls=cls, bits=bits, integer=integer, keep_negative=kn,
                              symmetric=sym, alpha=alpha))
    if want("quantized_relu"):
      for integer in range(0, bits + 2):
        for slope in (0.0, 0.5, 0.25, 0.125):
          # a leaky format whose whole negative range is narrower than one step is not a format
          if slope and slope * 2 ** (bits - 1) < 1:
            continue
          out.append(dict(cls="quantized_relu", bits=bits, integer=integer, slope=slope))
    for cls in ("quantized_tanh", "quantized_sigmoid"):
      if not want(cls):
        continue
      for sym in (0, 1):
        for mode in ("hard", "smooth", "real_internal", "real_flag"):
          out.append(dict(cls=cls, bits=bits, symmetric=sym, mode=mode))
  # simplest first: small bit widths come first by construction
  return out


def make(cfg, **extra):
  """Builds the real quantizer.  Sets the library-global sigmoid mode as a side effect (the caller
  resets it with common.reset_keras())."""
  from qkeras import quantizers as Q  # pylint: disable=import-outside-toplevel
  cls = cfg["cls"]
  if cls in ("quantized_bits", "quantized_linear"):
    return getattr(Q, cls)(bits=cfg["bits"], integer=cfg["integer"], symmetric=cfg["symmetric"],
                           keep_negative=cfg["keep_negative"], alpha=cfg["alpha"], **extra)
  if cls == "quantized_relu":
    return Q.quantized_relu(bits=cfg["bits"], integer=cfg["integer"],
                            negative_slope=cfg["slope"], **extra)
  mode = cfg["mode"]
  Q.set_internal_sigmoid({"hard": "hard", "smooth": "smooth", "real_internal": "real",
                          "real_flag": "hard"}[mode])
  if cls == "quantized_tanh":
    return Q.quantized_tanh(bits=cfg["bits"], symmetric=cfg["symmetric"],
                            use_real_tanh=(mode == "real_flag"), **extra)
  return Q.quantized_sigmoid(bits=cfg["bits"], symmetric=cfg["symmetric"],
                             use_real_sigmoid=(mode == "real_flag"), **extra)


def fmt(cfg):
  cls = cfg["cls"]
  if cls in ("quantized_bits", "quantized_linear"):
    alpha = 1.0 if cfg["alpha"] is None else float(cfg["alpha"])
    kn = int(bool(cfg["keep_negative"]))
    ub = cfg["bits"] - kn
    if ub == 0:  # one signed bit: a sign function
      if cls == "quantized_bits":
        allowed = [-alpha, alpha]
      else:
        qs = alpha * 2.0 ** (cfg["integer"] - cfg["bits"] + kn)
        allowed = [-0.5 * qs, 0.5 * qs]
      return dict(sign=True, allowed=allowed, step=allowed[1], lo=-1, hi=1, kind="linear",
                  bits=cfg["bits"], alpha=alpha)
    m = 2 ** ub
    step = 2.0 ** cfg["integer"] / m
    lo = kn * (-m + int(cfg["symmetric"]))
    # runit = the unit in which the input is rounded: legacy quantized_bits(alpha=c) computes
    # c*Q(x) (input rounded on the unscaled grid), quantized_linear(alpha=c) rounds x/(c*step)
    return dict(sign=False, step=alpha * step, lo=lo, hi=m - 1, kind="linear", bits=cfg["bits"],
                alpha=alpha, ustep=step, runit=step if cls == "quantized_bits" else alpha * step)
  if cls == "quantized_relu":
    nsb = cfg["bits"] - (1 if cfg["slope"] else 0)
    m = 2 ** nsb
    step = 2.0 ** cfg["integer"] / m
    lo = -int(cfg["slope"] * m) if cfg["slope"] else 0
    return dict(sign=False, step=step, lo=lo, hi=m - 1, kind="leaky" if cfg["slope"] else "relu",
                slope=cfg["slope"], bits=cfg["bits"], alpha=1.0, ustep=step, runit=step)
  if cls == "quantized_tanh":
    m = 2 ** (cfg["bits"] - 1)
    return dict(sign=False, step=1.0 / m, lo=-m + int(cfg["symmetric"]), hi=m - 1, kind="tanh",
                mode=cfg["mode"], bits=cfg["bits"], alpha=1.0, ustep=1.0 / m, runit=1.0 / m)
  m = 2 ** cfg["bits"]
  return dict(sign=False, step=1.0 / m, lo=int(cfg["symmetric"]), hi=m - 1, kind="sigmoid",
              mode=cfg["mode"], bits=cfg["bits"], alpha=1.0, ustep=1.0 / m, runit=1.0 / m)


def _sig64(x, mode):
  x = np.asarray(x, dtype=np.float64)
  if mode == "hard":
    return np.clip(0.5 * x + 0.5, 0.0, 1.0)
  if mode == "smooth":
    return np.clip(0.1875 * x + 0.5, 0.0, 1.0)
  with np.errstate(over="ignore"):
    return 1.0 / (1.0 + np.exp(-x))


def surrogate(f, x):
  """The unquantized activation a(x) in value units, float64 (exact for linear/relu/leaky)."""
  x = np.asarray(x, dtype=np.float64)
  k = f["kind"]
  if k == "linear":
    return x
  if k == "relu":
    return np.maximum(x, 0.0)
  if k == "leaky":
    return np.where(x >= 0, x, f["slope"] * x)
  if k == "tanh":
    if f["mode"] == "real_flag":
      return np.tanh(x)
    return 2.0 * _sig64(x, {"real_internal": "real"}.get(f["mode"], f["mode"])) - 1.0
  return _sig64(x, {"real_internal": "real", "real_flag": "real"}.get(f["mode"], f["mode"]))


def slack(f):
  if f["kind"] in ("linear", "relu", "leaky"):
    return 0.0
  return SLACK_PWL if f["mode"] in ("hard", "smooth") else SLACK_REAL


def _preimage(f, v):
  """Inputs whose surrogate value is v (float64), used to plant breakpoints for tanh/sigmoid."""
  v = np.asarray(v, dtype=np.float64)
  k, mode = f["kind"], f.get("mode")
  if k == "tanh":
    s = (v + 1.0) / 2.0
  else:
    s = v
  if mode == "hard":
    return (s - 0.5) / 0.5
  if mode == "smooth":
    return (s - 0.5) / 0.1875
  s = np.clip(s, 1e-9, 1 - 1e-9)
  return np.log(s / (1 - s))


def alphabet(cfg):
  """Sorted float32 breakpoint alphabet for a configuration (every |x| < 2^24 steps)."""
  f = fmt(cfg)
  if f["sign"]:
    v = abs(f["allowed"][1])
    a = common.a_fix(v, -2, 2)
    return a
  if f["kind"] in ("linear", "relu"):
    return common.a_fix(f["ustep"] if f["kind"] == "linear" else f["step"], f["lo"], f["hi"]) \
        if f["alpha"] == 1.0 else np.unique(np.concatenate([
            common.a_fix(f["ustep"], f["lo"], f["hi"], big=False),
            common.a_fix(f["step"], f["lo"], f["hi"], big=False),
            np.array([s * m * min(f["step"], f["ustep"]) for s in (-1, 1)
                      for m in (2.0 ** 23, 2.0 ** 24 - 1)], dtype=F32)]))
  if f["kind"] == "leaky":
    pos = common.a_fix(f["step"], 0, f["hi"])
    neg = common.a_fix(f["step"] / f["slope"], f["lo"], 0, big=False)
    return np.unique(np.concatenate([pos, neg]))
  # tanh / sigmoid: code-domain breakpoints pulled back through the surrogate
  base = common.a_fix(f["step"], f["lo"], f["hi"], big=False).astype(np.float64)
  pre = _preimage(f, base)
  vals = []
  for p in pre[np.isfinite(pre)]:
    vals += common.ulps(p, 2)
  vals += [F32(v) for v in (0.0, 1e-45, -1e-45, 1e-3, -1e-3, 30.0, -30.0, 1e6, -1e6, 1e30, -1e30)]
  a = np.array(vals, dtype=F32)
  return np.unique(a[np.isfinite(a)])


def codes_of(f, y):
  """Exact code indices of outputs (float64), or None where y is not k*step."""
  y = np.asarray(y, dtype=np.float64)
  c = y / f["step"]
  return c


def to_f(v):
  try:
    return float(np.asarray(v, dtype=np.float64).reshape(-1)[0]) if np.size(v) == 1 else \
        np.asarray(v, dtype=np.float64)
  except Exception:  # pylint: disable=broad-except
    return float(v)
