"""Runner shared by every property check (DESIGN.md section 2).

A property module (props/cNN.py) provides

  ID, TITLE, RULE, ASSUMPTIONS, TECHNIQUE
  enumerate_cases(tier, seed) -> list of JSON-serialisable case dicts; the list IS the
                                 bounded space: it is enumerated completely, never sampled
  run_case(case)              -> dict(evals, nontrivial, digest, violations=[...],
                                      [state_keys], [transitions], [traces], [sample], [info])
  bound(tier)                 -> dict describing the bound that was completed
  optional: worker_init(), finalize(cases, results, tier, seed) -> (extra_cov, extra_violations)

The runner distributes the cases over a spawn pool of long-lived workers (static, deterministic
order), re-executes a fixed subset a second time to prove the harness is deterministic, matches
violations against /verif/known_findings.json by failure signature, writes replay files and the
evidence file, and prints the VIOLATION / KNOWN-FINDING lines required by the interface.

Exit status: 0 held (possibly with KNOWN-FINDING lines), 1 violation, 2 harness error.
"""
import argparse
import hashlib
import importlib
import json
import multiprocessing as mp
import os
import subprocess
import sys
import time
import traceback

VERIF = os.path.dirname(os.path.dirname(os.path.abspath(__file__)))
REPO = os.environ.get("VERIF_REPO", "/repo")
_PROP = None


def _jsonable(o):
  import numpy as np
  if isinstance(o, dict):
    return {str(k): _jsonable(v) for k, v in o.items()}
  if isinstance(o, (list, tuple, set, frozenset)):
    return [_jsonable(v) for v in o]
  if isinstance(o, np.ndarray):
    return _jsonable(o.tolist())
  if isinstance(o, (np.floating,)):
    return float(o)
  if isinstance(o, (np.integer,)):
    return int(o)
  if isinstance(o, (np.bool_,)):
    return bool(o)
  if isinstance(o, float):
    if o != o or o in (float("inf"), float("-inf")):
      return repr(o)
    return o
  if isinstance(o, (str, int, bool)) or o is None:
    return o
  return repr(o)


def _worker_init(modname):
  global _PROP
  sys.stdout = open(os.devnull, "w")  # TF chatter must never reach the check's stdout
  _PROP = importlib.import_module(modname)
  if hasattr(_PROP, "worker_init"):
    _PROP.worker_init()


def _origin_of(tb):
  """File of the innermost frame: tells a failure of the code under test (under /repo, or
  raised by TensorFlow/Keras on its behalf) from a bug of the harness itself (under /verif)."""
  frames = traceback.extract_tb(tb)
  inner = frames[-1].filename if frames else ""
  in_repo = any(f.filename.startswith(REPO + "/") for f in frames)
  return inner, in_repo


def _run_one(item):
  idx, case = item
  t0 = time.time()
  try:
    res = _PROP.run_case(case)
    res["_ok"] = True
  except Exception as e:  # pylint: disable=broad-except
    inner, in_repo = _origin_of(e.__traceback__)
    res = {"_ok": False, "exc": type(e).__name__, "msg": str(e)[:400], "inner": inner,
           "in_repo": in_repo, "tb": traceback.format_exc()[-1500:]}
  res["_wall"] = time.time() - t0
  return idx, _jsonable(res)


def repo_state():
  def sh(*a):
    return subprocess.run(a, capture_output=True, text=True).stdout
  head = sh("git", "-C", REPO, "rev-parse", "HEAD").strip()
  diff = sh("git", "-C", REPO, "diff", "HEAD")
  return head, hashlib.sha256(diff.encode()).hexdigest()[:16], bool(diff.strip())


def load_known(pid):
  """Open and fixed entries of known_findings.json.  An open entry identifies the finding by its failure signature AND,
  when it has an "instances" file (one input identifier per line, committed under /verif/findings/), by the exact set of
  inputs recorded as failing: the same signature on any other input is a new violation."""
  path = os.path.join(VERIF, "known_findings.json")
  if not os.path.exists(path):
    return {}, {}
  data = json.load(open(path))
  open_, fixed = {}, {}
  for e in data.get("findings", []):
    if e.get("property") != pid:
      continue
    if e.get("status") == "open":
      e = dict(e)
      ipath = os.path.join(VERIF, e["instances"]) if e.get("instances") else None
      e["_instances"] = set(l.rstrip("\n") for l in open(ipath)) if ipath and os.path.exists(ipath) else None
      open_[e["key"]] = e
    else:
      fixed[e["key"]] = e
  return open_, fixed


def case_id(case):
  """Stable identifier of a case: its parameters without the run-dependent ones (seed, tier)."""
  if isinstance(case, dict):
    return json.dumps({k: v for k, v in case.items() if not k.startswith("_") and k != "tier"}, sort_keys=True, default=repr)
  return json.dumps(case, sort_keys=True, default=repr)


def instances_of(case, v):
  """The inputs a violation record stands for: the property module may name them (one record for many failing inputs of
  a case), otherwise the case itself."""
  if v.get("insts"):
    return [str(x) for x in v["insts"]]
  return [str(v["inst"])] if v.get("inst") else [case_id(case)]


def validate_evidence(path):
  code = ("import json,sys,jsonschema;"
          "s=json.load(open('/root/.vp/EVIDENCE.schema.json'));"
          "d=json.load(open(sys.argv[1]));jsonschema.validate(d,s)")
  if not os.path.exists("/root/.vp/EVIDENCE.schema.json"):
    return True, "schema file absent"
  for exe in ("python3-vt", "/opt/veriftools/pyvenv/bin/python"):
    try:
      r = subprocess.run([exe, "-c", code, path], capture_output=True, text=True, timeout=60)
      return r.returncode == 0, r.stderr[-500:]
    except (FileNotFoundError, subprocess.TimeoutExpired):
      continue
  return True, "no jsonschema interpreter found"


def write_replay(pid, case, viol):
  d = os.path.join(VERIF, "replays", pid)
  os.makedirs(d, exist_ok=True)
  blob = json.dumps({"property": pid, "case": case, "violation": viol}, indent=1, sort_keys=True)
  h = hashlib.sha256(blob.encode()).hexdigest()[:12]
  path = os.path.join(d, h + ".json")
  with open(path, "w") as f:
    f.write(blob)
  with open(os.path.join(d, "test_" + h + ".py"), "w") as f:
    f.write(
        '"""Plain replay of one violation, no explorer.  Run: cd /verif && ./check %s --replay %s\n'
        'or, with the environment of /verif/check exported, pytest this file."""\n'
        "import json, importlib, os\n"
        "def test_replay():\n"
        "  here = os.path.dirname(os.path.abspath(__file__))\n"
        "  case = json.load(open(os.path.join(here, %r)))['case']\n"
        "  prop = importlib.import_module('props.%s')\n"
        "  if hasattr(prop, 'worker_init'): prop.worker_init()\n"
        "  res = prop.run_case(case)\n"
        "  assert not res['violations'], res['violations'][:3]\n" % (pid, path, h + ".json", pid.lower()))
  return path


def do_replay(prop, path):
  blob = json.load(open(path))
  case = blob["case"]
  if hasattr(prop, "worker_init"):
    prop.worker_init()
  res1 = _jsonable(prop.run_case(case))
  res2 = _jsonable(prop.run_case(case))
  if res1.get("digest") != res2.get("digest"):
    print("HARNESS-NONDETERMINISM replaying", path)
    return 2
  want = (blob.get("violation") or {}).get("key")
  keys = [v["key"] for v in res1["violations"]]
  print(json.dumps({"case": case, "violations": res1["violations"][:5]}, indent=1)[:6000])
  if keys:
    print("VIOLATION property=%s replay=%s" % (prop.ID, path))
    if want and want not in keys:
      print("note: recorded signature %r not reproduced; observed %r" % (want, sorted(set(keys))[:5]))
    return 1
  print("replay: no violation on this tree")
  return 0


def run_check(prop, tier, seed):
  t0 = time.time()
  pid = prop.ID
  head, diffh, dirty = repo_state()
  cases = prop.enumerate_cases(tier, seed)
  n = len(cases)
  if n == 0:
    print("HARNESS-ERROR empty case space")
    return 2
  jobs = int(os.environ.get("VERIF_JOBS", "16"))
  jobs = max(1, min(jobs, n, os.cpu_count() or 1))
  ctx = mp.get_context("spawn")
  results = [None] * n
  chunk = max(1, min(64, n // (jobs * 6) or 1))
  cap_s = float(os.environ.get("VERIF_CASE_CAP_S", "0") or 0)
  with ctx.Pool(jobs, initializer=_worker_init, initargs=(prop.__name__,)) as pool:
    for idx, res in pool.imap_unordered(_run_one, list(enumerate(cases)), chunksize=chunk):
      results[idx] = res
    # determinism self-check: first, last and every 97th execution are run a second time
    # (in whatever worker picks them up, after the whole first pass) and must agree
    again = sorted(set([0, n - 1] + list(range(0, n, 97))))
    rerun = dict(pool.imap_unordered(_run_one, [(i, cases[i]) for i in again], chunksize=1))
  nondet = [i for i in again
            if results[i].get("_ok") and rerun[i].get("_ok")
            and results[i].get("digest") != rerun[i].get("digest")]
  if nondet:
    # The same case gave two different observations in one run.  If the executions also violate the property the
    # violations are reported below (exit 1: code whose answer depends on what the process did before - a cache, a
    # hoisted buffer - is exactly such a defect); without any violation the run cannot be trusted: exit 2.
    print("HARNESS-NONDETERMINISM property=%s cases=%s" % (pid, nondet[:5]))
    print(json.dumps({"case": cases[nondet[0]], "a": results[nondet[0]].get("digest"),
                      "b": rerun[nondet[0]].get("digest")})[:2000])
    for i in nondet:
      for v in rerun[i].get("violations", []) if rerun[i].get("_ok") else []:
        results[i].setdefault("violations", []).append(v)
    if not any(r.get("violations") for r in results if r.get("_ok")):
      return 2

  # ---- aggregate -------------------------------------------------------------------
  evals = nontriv = transitions = traces = 0
  state_keys, outcomes = set(), set()
  violations = []   # (case index, violation dict)
  harness_errors = []
  samples = []
  info_acc = {}
  caps = 0
  for i, r in enumerate(results):
    if not r.get("_ok"):
      if r.get("in_repo") or not r.get("inner", "").startswith(VERIF):
        # the code under test (or the framework acting for it) raised where the unchanged tree
        # does not: that is behaviour, not a harness problem
        where = os.path.basename(r.get("inner", "?"))
        violations.append((i, {"key": "raises:%s@%s" % (r["exc"], where),
                               "what": "unexpected %s: %s" % (r["exc"], r["msg"][:200]),
                               "detail": {"traceback": r["tb"]}}))
      else:
        harness_errors.append((i, r))
      continue
    if cap_s and r["_wall"] > cap_s:
      caps += 1
    evals += int(r.get("evals", 1))
    nontriv += int(r.get("nontrivial", 0))
    transitions += int(r.get("transitions", 1))
    traces += int(r.get("traces", 0))
    if "state_keys" in r:
      state_keys.update(r["state_keys"])
    else:
      state_keys.add(r.get("state", "case%d" % i))
    outcomes.add(r.get("digest"))
    for v in r.get("violations", []):
      violations.append((i, v))
    if "sample" in r and (len(samples) < 3 or (i == n - 1 and len(samples) < 4)):
      samples.append(r["sample"])
    for k, v in (r.get("info") or {}).items():
      if isinstance(v, (int, float)):
        info_acc[k] = info_acc.get(k, 0) + v
      elif isinstance(v, list):
        s = info_acc.setdefault(k, [])
        for x in v:
          if x not in s and len(s) < 40:
            s.append(x)
  if harness_errors:
    i, r = harness_errors[0]
    print("HARNESS-ERROR property=%s case=%d %s: %s" % (pid, i, r["exc"], r["msg"]))
    print(r["tb"])
    print(json.dumps(cases[i])[:1500])
    return 2

  extra_cov = {}
  if hasattr(prop, "finalize"):
    extra_cov, extra_v = prop.finalize(cases, results, tier, seed)
    for v in extra_v:
      violations.append((v.pop("_case", 0), v))

  # ---- classify violations by failure signature --------------------------------------
  known_open, known_fixed = load_known(pid)
  by_key = {}
  for i, v in violations:
    by_key.setdefault(v["key"], []).append((i, v))
  known_seen, new_keys = [], []
  outside = {}     # key -> [(case index, violation, instance)] failing inputs of a known signature that are NOT recorded
  dump = {}
  for key in sorted(by_key, key=lambda k: by_key[k][0][0]):
    if os.environ.get("VERIF_DUMP_INSTANCES"):
      dump[key] = sorted({inst for i, v in by_key[key] for inst in instances_of(cases[i], v)})
    if key in known_open:
      allowed = known_open[key]["_instances"]
      if allowed is not None:
        out = [(i, v, inst) for i, v in by_key[key] for inst in instances_of(cases[i], v) if inst not in allowed]
        if out:
          outside[key] = out
          new_keys.append(key)
        if len(out) < sum(len(instances_of(cases[i], v)) for i, v in by_key[key]):
          known_seen.append(key)
      else:
        known_seen.append(key)
    else:
      new_keys.append(key)
  if os.environ.get("VERIF_DUMP_INSTANCES"):
    with open(os.environ["VERIF_DUMP_INSTANCES"], "w") as f:
      json.dump(dump, f)
  for key in known_seen:
    print("KNOWN-FINDING: property=%s %s [%s; %d case(s)]" % (
        pid, known_open[key]["what"], key, len(by_key[key])))
  replay_paths = []
  for key in new_keys[:80]:
    if key in outside:
      i, v, inst = outside[key][0]
      v = dict(v, what="%s  [signature of a recorded finding, but this input is not among the inputs recorded for it: %s]" % (
          v.get("what"), inst[:300]))
    else:
      i, v = by_key[key][0]
    path = write_replay(pid, cases[i], v)
    replay_paths.append(path)
    print("VIOLATION property=%s replay=%s" % (pid, path))
    if key in outside:
      print("  signature: %s  (%d input(s) outside the recorded finding's input set)" % (key, len(outside[key])))
    else:
      print("  signature: %s  (%d case(s))%s" % (
          key, len(by_key[key]), "  [listed as fixed: it has returned]" if key in known_fixed else ""))
    print("  what: %s" % str(v.get("what"))[:400])
  if len(new_keys) > 80:
    print("  ... and %d more distinct signatures" % (len(new_keys) - 80))

  # ---- evidence ----------------------------------------------------------------------
  wall = time.time() - t0
  if not samples:
    samples = [cases[0], cases[-1]]
  cov = {
      "states": len(state_keys),
      "transitions": transitions,
      "traces_validated_against_impl": traces,
      "samples": samples[:4],
      "evaluations": evals,
      "distinct_nontrivial": nontriv,
      "rule": prop.RULE,
      "exhaustive": True,
      "cases_enumerated": n,
      "bound": prop.bound(tier) if hasattr(prop, "bound") else {},
      "distinct_observed_outcomes": len(outcomes),
      "determinism_rechecks": len(again),
      "caps_hit": caps,
      "known_findings_observed": known_seen,
      "new_violation_signatures": new_keys[:80],
      "technique": getattr(prop, "TECHNIQUE", ""),
      "repo_head": head,
      "repo_worktree_diff_sha256_16": diffh,
      "repo_worktree_dirty": dirty,
      "workers": jobs,
  }
  for k, v in info_acc.items():
    cov.setdefault("info_" + k, v)
  cov.update(extra_cov or {})
  ev = {
      "property_id": pid, "tier": tier, "seed": seed, "level": "model_checking",
      "coverage": cov,
      "assumptions": list(getattr(prop, "ASSUMPTIONS", [])),
      "wall_s": round(wall, 2),
      "violations": len(new_keys),
  }
  evdir = os.path.join(VERIF, "evidence")
  os.makedirs(evdir, exist_ok=True)
  evpath = os.path.join(evdir, pid + ".json")
  with open(evpath, "w") as f:
    json.dump(_jsonable(ev), f, indent=1, sort_keys=True)
  ok, err = validate_evidence(evpath)
  if not ok:
    print("HARNESS-ERROR evidence does not validate: " + err)
    return 2
  print("%s %s seed=%d: cases=%d states=%d transitions=%d evaluations=%d nontrivial=%d "
        "outcomes=%d traces=%d known=%d new=%d wall=%.1fs" % (
            pid, tier, seed, n, len(state_keys), transitions, evals, nontriv, len(outcomes),
            traces, len(known_seen), len(new_keys), wall))
  return 1 if new_keys else 0


def selftest():
  import qkeras  # pylint: disable=import-outside-toplevel
  import tensorflow as tf  # pylint: disable=import-outside-toplevel
  assert os.path.realpath(qkeras.__file__).startswith(REPO + "/"), qkeras.__file__
  assert os.environ.get("TF_USE_LEGACY_KERAS") == "1"
  assert "tf_keras" in tf.keras.__name__ or "tf_keras" in str(tf.keras.layers.Dense), tf.keras
  json.load(open(os.path.join(VERIF, "MANIFEST.json")))
  tmp = os.path.join(VERIF, "evidence", ".selftest.json")
  os.makedirs(os.path.dirname(tmp), exist_ok=True)
  json.dump({"property_id": "C00", "tier": "quick", "seed": 0, "level": "model_checking",
             "coverage": {"states": 1, "transitions": 1, "traces_validated_against_impl": 0,
                          "samples": [1]}, "wall_s": 0.0}, open(tmp, "w"))
  ok, err = validate_evidence(tmp)
  os.remove(tmp)
  assert ok, err
  print("selftest ok: qkeras from", qkeras.__file__, "tf", tf.__version__)
  return 0


def main():
  ap = argparse.ArgumentParser()
  ap.add_argument("prop", nargs="?")
  ap.add_argument("--tier", default=os.environ.get("VERIF_TIER") or "quick")
  ap.add_argument("--replay")
  ap.add_argument("--selftest", action="store_true")
  a = ap.parse_args()
  if a.selftest:
    sys.exit(selftest())
  if not a.prop:
    ap.error("property id required")
  tier = a.tier if a.tier in ("quick", "thorough") else "quick"
  try:
    seed = int(os.environ.get("VERIF_SEED", "0") or 0)
  except ValueError:
    seed = 0
  prop = importlib.import_module("props." + a.prop.lower())
  if a.replay:
    sys.exit(do_replay(prop, a.replay))
  sys.exit(run_check(prop, tier, seed))


if __name__ == "__main__":
  main()
