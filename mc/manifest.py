"""Regenerates /verif/MANIFEST.json from the property modules that exist (run: ./check --py -m mc.manifest)."""
import importlib
import json
import os

VERIF = os.path.dirname(os.path.dirname(os.path.abspath(__file__)))
ALL = ["C%02d" % i for i in range(1, 21)]
# reasons for properties that are (still) not claimed; edited by hand
NOT_CLAIMED_REASON = {}


def main():
  checks, na = [], []
  for pid in ALL:
    path = os.path.join(VERIF, "props", pid.lower() + ".py")
    if not os.path.exists(path):
      na.append({"property_id": pid, "reason": NOT_CLAIMED_REASON.get(
          pid, "no check is registered for this property yet (machinery under construction); "
               "the technique applies, see DESIGN.md section 3")})
      continue
    m = importlib.import_module("props." + pid.lower())
    checks.append({
        "property_id": pid,
        "quick_cmd": "./check %s --tier quick" % pid,
        "thorough_cmd": "./check %s --tier thorough" % pid,
        "evidence_file": "/verif/evidence/%s.json" % pid,
        "replay_cmd_template": "./check %s --replay {path}" % pid,
        "engine": "mc",
        "level_claimed": {
            "category": "model_checking",
            "text": getattr(m, "LEVEL_TEXT", m.RULE),
            "design_ref": "DESIGN.md section 3, " + pid,
        },
        "level_note": "; ".join(m.ASSUMPTIONS),
        "technique": m.TECHNIQUE,
    })
  man = {
      "version": 1,
      "setup_cmd": "./check --selftest",
      "hooks": {
          "guard": "QKERAS_VERIF",
          "enable": "no source hooks exist: every seam (RNG, learning phase, hyper-parameter object, "
                    "callback events) is reached from outside the package; /verif/check exports "
                    "QKERAS_VERIF=1 and TF_USE_LEGACY_KERAS=1 and runs /repo in place",
          "baseline_off_cmd": "cd /repo && /venv/bin/python -m pytest -ra -q -p no:cacheprovider "
                              "--timeout=900 --continue-on-collection-errors",
          "source_commits": [],
          "add_only": True,
      },
      "engines": [{
          "name": "mc", "path": "/verif/mc",
          "serves_properties": [c["property_id"] for c in checks],
          "kind_free_text": "hand-written explicit-state / bounded exhaustive explorer in Python driving "
                            "the real qkeras code: lattice x alphabet enumeration, choice-point DFS with "
                            "deviation bound, BFS over event histories with state hashing, bounded program "
                            "grammars; reference models in numpy float64 / Fraction",
      }],
      "checks": checks,
      "not_applicable": na,
      "notes": "All checks run the unmodified /repo sources in fresh /venv/bin/python processes with "
               "TF_USE_LEGACY_KERAS=1 (DESIGN.md section 1). Known genuine defects are listed in "
               "/verif/known_findings.json and printed as KNOWN-FINDING lines.",
  }
  with open(os.path.join(VERIF, "MANIFEST.json"), "w") as f:
    json.dump(man, f, indent=1)
  print("MANIFEST: %d checks, %d not claimed" % (len(checks), len(na)))


if __name__ == "__main__":
  main()
