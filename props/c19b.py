"""C19b - the qtools energy report: non-negative entries, entries are the documented functions of the reported
types / counts / tensor sizes, totals and extracted sums add up.

Kernel P: small quantized programs (dense / conv / depthwise stacks, average pooling, an Add merge, a
batch-normalisation) x every memory option (weights_on_memory x activations_on_memory x rd_wr_on_io x
min_sram_size).  The reference is an independent re-implementation of the published Horowitz model
(config_public.py tables) evaluated on the types, operation counts and tensor shapes that QTools reports.
"""
import itertools

import numpy as np

from mc import common

FPM_ADD = [0.003125, 0]
FPM_MUL = [0.002994791667, 0.001041666667, 0]
SRAM_RD = [9.02427321e-04, -2.68847858e-02, 2.08900804e-01, 0.0]
DRAM_RD = [20.3125, 0]
FP = {"fp32": (0.9, 3.7), "fp16": (0.4, 1.1)}
# residual_add_conv: a 2-input Add on rank-4 feature maps; triple_add: a 3-input Add on rank-2 tensors (fan-in != rank)
PROGRAMS = ["dense", "conv_dense", "dw_conv", "conv_pool_dense", "diamond_add", "conv_bn_act", "po2_binary",
            "residual_add_conv", "triple_add"]
MEM = list(itertools.product(("dram", "sram", "fixed"), ("dram", "sram"), (True, False), (0, 2 ** 20)))


def enumerate_cases(tier, seed):
  return [dict(sub="b", prog=p, wmem=m[0], amem=m[1], io=m[2], minsram=m[3], _seed=seed) for p in PROGRAMS for m in MEM]


def poly(c, x):
  return max(float(np.polyval(c, x)), 0.0)


def build(prog):
  tf = common.tf_init()
  import qkeras  # pylint: disable=import-outside-toplevel
  L = tf.keras.layers
  qb, qb2 = "quantized_bits(4,1,1,alpha=1)", "quantized_bits(6,2,1,alpha=1)"
  if prog == "dense":
    inp = L.Input((5,), name="inp")
    x = qkeras.QDense(3, kernel_quantizer=qb, bias_quantizer=qb2, name="d0")(inp)
  elif prog == "conv_dense":
    inp = L.Input((5, 5, 3), name="inp")
    x = qkeras.QConv2D(2, 2, kernel_quantizer=qb, bias_quantizer=qb2, name="c0")(inp)
    x = qkeras.QActivation("quantized_relu(3,1)", name="a0")(x)
    x = L.Flatten(name="f")(x)
    x = qkeras.QDense(3, kernel_quantizer="ternary(alpha=1)", bias_quantizer=None, use_bias=False, name="d1")(x)
  elif prog == "dw_conv":
    inp = L.Input((5, 5, 3), name="inp")
    x = qkeras.QDepthwiseConv2D(2, depthwise_quantizer=qb, bias_quantizer=qb2, name="dw0")(inp)
    x = qkeras.QActivation("quantized_relu(3,1)", name="a0")(x)
    x = qkeras.QConv2D(2, 1, kernel_quantizer="quantized_po2(3)", bias_quantizer=qb2, name="c1")(x)
  elif prog == "conv_pool_dense":
    inp = L.Input((6, 6, 2), name="inp")
    x = qkeras.QConv2D(2, 2, kernel_quantizer=qb, bias_quantizer=qb2, name="c0")(inp)
    x = qkeras.QActivation("quantized_relu(4,1)", name="a0")(x)
    x = L.AveragePooling2D(2, name="p0")(x)
    x = L.Flatten(name="f")(x)
    x = qkeras.QDense(2, kernel_quantizer=qb, bias_quantizer=qb2, name="d1")(x)
  elif prog == "diamond_add":
    inp = L.Input((5,), name="inp")
    a = qkeras.QDense(3, kernel_quantizer=qb, bias_quantizer=qb2, name="da")(inp)
    b = qkeras.QDense(3, kernel_quantizer="binary(alpha=1)", bias_quantizer=qb2, name="db")(inp)
    x = L.Add(name="add")([a, b])
    x = qkeras.QActivation("quantized_bits(6,2,1)", name="a0")(x)
  elif prog == "residual_add_conv":
    inp = L.Input((5, 5, 2), name="inp")
    a = qkeras.QConv2D(2, 1, kernel_quantizer=qb, bias_quantizer=qb2, name="ca")(inp)
    b = qkeras.QConv2D(2, 1, kernel_quantizer="ternary(alpha=1)", bias_quantizer=qb2, name="cb")(inp)
    x = L.Add(name="add")([a, b])
    x = qkeras.QActivation("quantized_bits(6,2,1)", name="a0")(x)
  elif prog == "triple_add":
    inp = L.Input((5,), name="inp")
    a = qkeras.QDense(3, kernel_quantizer=qb, bias_quantizer=qb2, name="da")(inp)
    b = qkeras.QDense(3, kernel_quantizer="binary(alpha=1)", bias_quantizer=qb2, name="db")(inp)
    c = qkeras.QDense(3, kernel_quantizer="quantized_bits(3,0,1,alpha=1)", bias_quantizer=qb2, name="dc")(inp)
    x = L.Add(name="add")([a, b, c])
    x = qkeras.QActivation("quantized_bits(6,2,1)", name="a0")(x)
  elif prog == "conv_bn_act":
    inp = L.Input((5, 5, 3), name="inp")
    x = qkeras.QConv2D(2, 2, kernel_quantizer=qb, bias_quantizer=qb2, name="c0")(inp)
    x = qkeras.QBatchNormalization(name="bn")(x)
    x = qkeras.QActivation("quantized_relu(4,1)", name="a0")(x)
  else:
    inp = L.Input((5,), name="inp")
    x = qkeras.QDense(4, kernel_quantizer="quantized_po2(4)", bias_quantizer="quantized_po2(4)", name="d0")(inp)
    x = qkeras.QActivation("binary(alpha=1)", name="a0")(x)
    x = qkeras.QDense(2, kernel_quantizer="binary(alpha=1)", bias_quantizer=qb2, name="d1")(x)
  return tf.keras.Model(inp, x)


def gv(item, key):
  return item.get(key) if isinstance(item, dict) else getattr(item, key, None)


def op_energy(q, mode, bits):
  """OP[get_op_type(q)][mode](bits) of the published model."""
  if q.is_floating_point:
    add, mul = FP["fp" + str(q.bits)]
    return add if mode == "add" else mul
  if mode == "mul":
    return poly(FPM_MUL, bits)
  return poly(FPM_ADD, bits)


def mem_rd(is_input, shape, mode, minsram, io, bits, is_tensor=True):
  if is_input:
    mode = "dram" if io else "sram"
  if is_tensor:
    shape = shape[1:]
  total = float(np.prod(shape)) * bits
  lg = np.log2(max(total, minsram))
  e = 0.0
  if mode == "dram":
    e += poly(DRAM_RD, total)
    if io:
      e += np.ceil(total / 64.0) * poly(SRAM_RD, lg)
  elif mode == "sram":
    e += np.ceil(total / 64.0) * poly(SRAM_RD, lg)
  return e


def mem_wr(is_output, shape, mode, minsram, io, bits):
  if is_output:
    mode = "dram" if io else "sram"
  shape = shape[1:]
  total = float(np.prod(shape)) * bits
  lg = np.log2(max(total, minsram))
  e = 0.0
  if mode == "dram":
    if io:
      e += np.ceil(total / 64.0) * poly(SRAM_RD, lg)
    e += poly(DRAM_RD, total)
  elif mode == "sram":
    e += np.ceil(total / 64.0) * poly(SRAM_RD, lg)
  return e


def run_case(case):
  tf = common.tf_init()
  common.reset_keras()
  from qkeras import quantizers as Q  # pylint: disable=import-outside-toplevel
  from qkeras.qtools import run_qtools  # pylint: disable=import-outside-toplevel
  from qkeras.qtools import config_public  # pylint: disable=import-outside-toplevel
  viol = []

  def bad(clause, what):
    key = "b:" + clause
    if len(viol) < 6 and not any(v["key"] == key for v in viol):
      viol.append({"key": key, "what": "%s [program %s, weights_on_memory=%s activations_on_memory=%s rd_wr_on_io=%s "
                   "min_sram_size=%d]" % (what, case["prog"], case["wmem"], case["amem"], case["io"], case["minsram"]),
                   "detail": {"case": case}})
  model = build(case["prog"])
  for i, l in enumerate(model.layers):
    ws = l.get_weights()
    if ws:
      l.set_weights([(common.tensor(w.shape, "grid7", i + j) * np.float32(0.7) + (0.3 if "variance" in l.weights[j].name else 0)).astype(np.float32)
                     for j, w in enumerate(ws)])
  qt = run_qtools.QTools(model, process="horowitz", source_quantizers=[Q.quantized_bits(4, 1, 1)], is_inference=False,
                         keras_quantizer="fp32", keras_accumulator="fp32", for_reference=False)
  e = qt.pe(weights_on_memory=case["wmem"], activations_on_memory=case["amem"], min_sram_size=case["minsram"],
            rd_wr_on_io=case["io"])
  lm = qt._layer_map            # pylint: disable=protected-access
  dmap = lm["layer_data_type_map"]
  evals = 0
  total_ref = 0.0
  nonzero = 0
  for layer in model.layers:
    if layer not in dmap:
      continue
    item = dmap[layer]
    cn = layer.__class__.__name__
    if layer.name not in e:
      bad("layer-missing", "layer %s is in the data type map but not in the energy report" % layer.name)
      continue
    got = e[layer.name]["energy"]
    is_in, is_out = layer in lm["input_layers"], layer in lm["output_layers"]
    iql = gv(item, "input_quantizer_list")
    ishape = layer.input_shape if isinstance(layer.input_shape, list) else [layer.input_shape]
    ref_in = sum(mem_rd(is_in, s, case["amem"], case["minsram"], case["io"], q.bits) for s, q in zip(ishape, iql))
    ref_out = mem_wr(is_out, gv(item, "output_shapes"), case["amem"], case["minsram"], case["io"], gv(item, "output_quantizer").bits)
    ref_par = 0.0
    if cn in ("QBatchNormalization",):
      s = len(layer.get_weights()[0])
      for k in ("gamma_quantizer", "beta_quantizer", "mean_quantizer", "variance_quantizer"):
        q = item[k]
        if q:
          ref_par += mem_rd(False, (s,), case["wmem"], case["minsram"], case["io"], q.bits, is_tensor=False)
    elif gv(item, "weight_quantizer") is not None:
      ref_par += mem_rd(False, gv(item, "w_shapes"), case["wmem"], case["minsram"], case["io"], gv(item, "weight_quantizer").bits, is_tensor=False)
      if gv(item, "bias_quantizer"):
        ref_par += mem_rd(False, gv(item, "b_shapes"), case["wmem"], case["minsram"], case["io"], gv(item, "bias_quantizer").bits, is_tensor=False)
    count = gv(item, "operation_count")
    ref_op = 0.0
    if cn in ("QConv2D", "QConv1D", "QDepthwiseConv2D", "QDense"):
      m, a = gv(item, "multiplier"), gv(item, "accumulator")
      ref_op = count * (m.gate_factor * op_energy(m.output, m.implemented_as(), m.gate_bits) + op_energy(a.output, "add", a.output.bits))
    elif cn == "AveragePooling2D":
      a = gv(item, "pool_sum_accumulator")
      ref_op = count * op_energy(a.output, "add", a.output.bits)
    elif cn == "Add":
      m = gv(item, "multiplier")
      ref_op = (len(iql) - 1) * count * m.gate_factor * op_energy(m.output, m.implemented_as(), m.gate_bits)
    elif cn == "QBatchNormalization":
      for k in ("internal_divide_quantizer", "internal_multiplier"):
        d = item[k]
        if d:
          ref_op += d.gate_factor * op_energy(d.output, d.implemented_as(), d.gate_bits)
      ref_op *= count
    ref = {"inputs": ref_in, "outputs": ref_out, "parameters": ref_par, "op_cost": ref_op}
    total_ref += sum(ref.values())
    for k, v in ref.items():
      evals += 1
      g = got[k]
      if not np.isfinite(g) or g < 0:
        bad("non-negative:" + k, "layer %s: energy entry %s = %r" % (layer.name, k, g))
      elif abs(g - float("{0:.2f}".format(v))) > 1e-9 * max(1.0, abs(v)) + 0.011:
        bad("entry:%s:%s" % (k, cn), "layer %s (%s): %s = %r, the documented function of the reported types / counts / sizes gives %.4f" % (
            layer.name, cn, k, g, v))
      if g > 0:
        nonzero += 1
  evals += 1
  if abs(e["total_cost"] - int(total_ref)) > 1:
    bad("total", "total_cost = %r, sum of all layer entries = %.3f" % (e["total_cost"], total_ref))
  # cost settings: the stock one, plus the bounded lattice default x (no override | one class present in the report overridden
  # by each override list | every class overridden by the empty list): an explicit empty list selects NOTHING for that class
  classes = sorted({entry["class_name"] for ln, entry in e.items() if ln != "total_cost"})
  allk = ["inputs", "outputs", "parameters", "op_cost"]
  settings = [("include_energy", config_public.config_settings["include_energy"])]
  for dn, dflt in (("all", allk), ("ops", ["op_cost"]), ("none", []), ("absent", None)):
    base = {} if dflt is None else {"default": list(dflt)}
    settings.append(("default=%s" % dn, dict(base)))
    for cn in classes:
      for on, ov in (("empty", []), ("inputs", ["inputs"]), ("par+op", ["parameters", "op_cost"])):
        settings.append(("default=%s:class=%s" % (dn, on), dict(base, **{cn: list(ov)})))
    settings.append(("default=%s:all-classes=empty" % dn, dict(base, **{cn: [] for cn in classes})))
  for name, setting in settings:
    want = 0.0
    prof = {}
    for ln, entry in e.items():
      if ln == "total_cost":
        continue
      if entry["class_name"] in setting:
        keys = setting[entry["class_name"]]
      else:
        keys = setting.get("default", [])
      prof[ln] = sum(entry["energy"][k] for k in keys)
      want += prof[ln]
    got_sum = qt.extract_energy_sum(setting, e)
    evals += 1
    if got_sum != int(want):
      bad("extract_energy_sum:" + name, "extract_energy_sum(%r) = %r, sum of the selected entries = %r" % (setting, got_sum, int(want)))
    got_prof = qt.extract_energy_profile(setting, e)
    evals += 1
    for ln, w in prof.items():
      gp = got_prof.get(ln)
      if gp is None or abs(gp["total"] - w) > 1e-6 or gp["energy"] != e[ln]["energy"]:
        bad("extract_energy_profile:" + name, "extract_energy_profile(%r)[%s] = %r, the selected entries sum to %r" % (setting, ln, gp, w))
        break
    if set(got_prof) != set(prof):
      bad("extract_energy_profile:layers:" + name, "profile layers %r != report layers %r" % (sorted(got_prof), sorted(prof)))
  return {"evals": evals, "transitions": 1, "nontrivial": int(nonzero >= 2),
          "state": "b:%s:%s:%s:%s:%d" % (case["prog"], case["wmem"], case["amem"], case["io"], case["minsram"]),
          "digest": common.digest(repr(sorted((k, repr(v)) for k, v in e.items()))), "violations": viol, "traces": evals,
          "sample": {"sub": "b", "program": case["prog"], "total_cost": e["total_cost"]}}
