"""C19b placeholder: filled in with the model-level energy check (see props/c19.py)."""


def enumerate_cases(tier, seed):
  return []


def run_case(case):
  raise NotImplementedError
