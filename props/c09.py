"""C09 - quantizer configuration round trip reproduces the same quantization function.

Kernel L.  For each registered quantizer class the option lattice is derived from
inspect.signature(cls.__init__): every parameter takes its default plus the non-default values of a
name-keyed value table; configurations within the deviation bound are enumerated completely.  Each
original is rebuilt through three routes and compared bit-for-bit (outputs and .scale) on probe
tensors of rank 1-4 and a breakpoint vector, in the training phase under an owned random source so
that stochastic options are observable.
"""
import inspect

import numpy as np

from mc import choices
from mc import common

ID = "C09"
TITLE = "quantizer configuration round trip reproduces the same quantization function"
TECHNIQUE = ("exhaustive enumeration of a deviation-bounded constructor-option lattice (derived from the real "
             "signatures) x three rebuild routes on the real classes, differential bit-exact comparison on "
             "probe tensors under an owned RNG")
RULE = ("cases = (class, option assignment) with at most k non-default options (k=2 quick, 3 thorough), invalid "
        "assignments (the original itself refuses to construct or run on every probe) are dropped and counted; "
        "evaluations = probe tensors compared x routes; non-trivial = the assignment changes the function "
        "relative to the default-constructed quantizer on some probe (only those can expose a forgotten key)")
ASSUMPTIONS = [
    "tf_keras serialize/deserialize_keras_object are trusted; the custom-object table is the library's own "
    "(_add_supported_quantized_objects) plus nothing else",
    "probes: 4 ranks x 3 value patterns + one breakpoint vector; an option whose effect is invisible on all probes "
    "(var_name, use_variables, use_ste: forward value unaffected) cannot be judged and is reported as unobservable",
    "a constructor parameter missing from the value table is reported as unmodelled, not judged",
]

VALUES = {
    "bits": [4, 2], "integer": [1, 2], "symmetric": ["FLIP"], "keep_negative": [False],
    # 2**-10 and 0.3: numbers whose shortest decimal spelling is long (print / parse round trip of C10 rides on this table)
    "alpha": [0.5, 2.0, "auto", "auto_po2", "ARRAY", 2.0 ** -10, 0.3], "use_stochastic_rounding": [True],
    "scale_axis": [0, [0, 1]], "qnoise_factor": [0.5], "var_name": ["v"], "use_ste": [False],
    "use_variables": [True], "elements_per_scale": [2], "min_po2_exponent": [-2, 0], "max_po2_exponent": [0],
    "post_training_scale": ["PTS", "PTS_COL"], "temperature": [2.0], "use_real_sigmoid": ["FLIP"], "threshold": [0.5, 0.0],
    "number_of_unrolls": [2], "use_01": [True], "use_sigmoid": [1], "negative_slope": [0.25],
    "relu_upper_bound": [1.5], "is_quantized_clip": [False], "u": [100.0], "use_real_tanh": [True],
    # 1.25 / 3.0: not powers of two (the exponent of the clipped value is rounded: 1.25 acts as 1, 3 as 4)
    "max_value": [2.0, 0.5, 1.25, 3.0], "quadratic_approximation": [True], "log2_rounding": ["floor"], "relu_shift": [2],
}
# Second base points: the deviation-bounded lattice is enumerated around the default constructor AND around these
# contexts, in which options that are invisible next to the defaults (a clip bound above the default range, scale
# grouping without a data-dependent scale, ...) change the function.
BASES = {
    "quantized_relu": [{"bits": 4, "integer": 2}],
    "quantized_bits": [{"alpha": "auto_po2", "scale_axis": 0}, {"alpha": "auto", "bits": 4}],
    "quantized_linear": [{"alpha": "auto", "bits": 4}],
    "binary": [{"alpha": "auto_po2", "scale_axis": 0}],
    "ternary": [{"alpha": 1.0}],
    "quantized_po2": [{"bits": 4, "max_value": 2.0}],
    "quantized_relu_po2": [{"bits": 4, "max_value": 2.0}],
    "quantized_hswish": [{"bits": 4, "integer": 2}],
}
CLASSES = ["quantized_bits", "quantized_linear", "quantized_relu", "quantized_tanh", "quantized_sigmoid",
           "quantized_po2", "quantized_relu_po2", "binary", "ternary", "stochastic_binary", "stochastic_ternary",
           "bernoulli", "quantized_ulaw", "quantized_hswish"]
# "from_config(same dict) twice": one configuration dictionary used for two rebuilds (a stored config, a layer config that
# is deserialised again): the dictionary the caller handed over must not be modified and both rebuilds must succeed
ROUTES = ["from_config", "get_quantizer(dict)", "keras_serialize", "from_config(same dict) twice"]


def bound(tier):
  return {"deviation_bound": 2 if tier == "quick" else 3, "classes": CLASSES, "routes": ROUTES}


def worker_init():
  common.tf_init()


def _signature(cls):
  common.tf_init()
  from qkeras import quantizers as Q  # pylint: disable=import-outside-toplevel
  sig = inspect.signature(getattr(Q, cls).__init__)
  return [(n, p.default) for n, p in sig.parameters.items() if n != "self"]


def enumerate_cases(tier, seed):
  k = 2 if tier == "quick" else 3
  out = []
  for cls in CLASSES:
    params = _signature(cls)
    axes, unmodelled = {}, []
    for n, d in params:
      if n not in VALUES:
        unmodelled.append(n)
        continue
      vals = []
      for v in VALUES[n]:
        if v == "FLIP":
          v = (not d) if isinstance(d, bool) else (0 if d else 1)
        if v == "ARRAY" and cls not in ("quantized_bits", "quantized_linear", "binary"):
          continue
        if v != d or type(v) is not type(d):
          vals.append(v)
      axes[n] = ["DEFAULT"] + vals
    seen = set()
    for base in [{}] + BASES.get(cls, []):
      for c in common.dev_product(axes, k):
        opts = dict(base)
        for n, v in c.items():
          if not (isinstance(v, str) and v == "DEFAULT"):
            opts[n] = v
        key = repr(sorted(opts.items(), key=lambda kv: kv[0]))
        if key in seen:
          continue
        seen.add(key)
        out.append(dict(cls=cls, opts=opts, unmodelled=unmodelled, _seed=seed))
    out.append(dict(cls=cls, opts={}, registry=True, unmodelled=unmodelled, _seed=seed))
  # histories of the ORIGINAL before it is serialised: (hook) the layer hook _set_trainable_parameter every Q layer calls
  # on the quantizers it is given has run; (mode) the library-global sigmoid approximation was switched between the
  # construction of the original and the round trip.  Everything that determines the function must still be in the config.
  extra = []
  for c in out:
    if c.get("registry"):
      continue
    nbase = max([len(b) for b in BASES.get(c["cls"], []) if b and set(b) <= set(c["opts"])] or [0])
    hooked = c["cls"] in ("quantized_bits", "quantized_linear")      # the classes whose hook touches more than alpha
    if len(c["opts"]) - nbase <= (2 if hooked else 1) + (0 if tier == "quick" else 1):
      extra.append(dict(c, hist="hook"))
    if len(c["opts"]) - nbase > (1 if tier == "quick" else 2):
      continue
    if c["cls"] in ("quantized_sigmoid", "quantized_tanh", "quantized_hswish"):
      for m1, m2 in (("smooth", "hard"), ("real", "hard"), ("hard", "smooth")):
        extra.append(dict(c, hist="mode:%s>%s" % (m1, m2)))
  return out + extra


def _materialize(opts):
  o = {}
  for k, v in opts.items():
    if v == "ARRAY":
      v = np.array([1.0, 0.5, 2.0, 1.0], dtype=np.float32)
    elif v == "PTS":
      v = np.array([0.5, 0.25, 1.0, 0.5], dtype=np.float32)
    elif v == "PTS_COL":
      v = np.array([[0.5], [0.25], [1.0]], dtype=np.float32)     # one scale per row: only the (3,4) probe accepts it
    o[k] = v
  return o


def probes(seed):
  ps = []
  for r in (1, 2, 3, 4):
    for pat in ("grid7", "signs", "ramp"):
      ps.append(("r%d:%s" % (r, pat), common.tensor(common.SHAPES_A[r], pat, seed)))
  bp = np.concatenate([np.linspace(-4, 4, 257), [1e-3, -1e-3, 100.0, -100.0, 0.3, -0.7]]).astype(np.float32)
  ps.append(("breakpoints", bp[: (len(bp) // 4) * 4]))
  return ps


def observe(tf, q, x):
  """Output and scale of q on x in the training phase under an owned constant random source."""
  from props import c08  # pylint: disable=import-outside-toplevel
  ch = choices.Chooser([])
  k = [0]

  def answer(idx, kk, shape, minval, maxval):
    k[0] += 1
    base = np.full(shape, 0.37, dtype=np.float32)
    if maxval is not None and not isinstance(minval, (int, float)):
      lo, hi = np.asarray(minval, dtype=np.float32), np.asarray(maxval, dtype=np.float32)
      return (lo + base * (hi - lo)).astype(np.float32)
    return base
  y, _ = c08.execute(tf, q, x, 1, ch, answer)
  s = getattr(q, "scale", None)
  if s is not None:
    s = np.asarray(s.numpy() if hasattr(s, "numpy") else s, dtype=np.float32)
  return y, s


def run_case(case):
  tf = common.tf_init()
  common.reset_keras()
  from qkeras import quantizers as Q  # pylint: disable=import-outside-toplevel
  from qkeras import quantizer_registry  # pylint: disable=import-outside-toplevel
  from qkeras.utils import _add_supported_quantized_objects  # pylint: disable=import-outside-toplevel
  cls = getattr(Q, case["cls"])
  viol = []

  def bad(route, what, lost=""):
    # the signature names the class and what is lost / raised; the route is part of it only for failures
    # of the route itself (an exception while rebuilding)
    key = "%s:%s:%s" % (case["cls"], route, lost) if lost.startswith("raises") or not lost.startswith(
        ("lost:", "with:")) else "%s:%s" % (case["cls"], lost)
    if case.get("hist") and lost.startswith(("lost:", "with:")) and not lost.endswith("call-raises"):
      key += ":after-" + case["hist"].split(":")[0]     # a difference of behaviour that the history brought about
    if len(viol) < 8 and not any(v["key"] == key for v in viol):
      viol.append({"key": key, "what": "%s via %s: %s" % (case["cls"], route, what),
                   "detail": {"case": {k: v for k, v in case.items() if k != "unmodelled"}}})
  if case.get("registry"):
    ok = quantizer_registry.lookup_quantizer(case["cls"]) is cls
    if not ok:
      bad("registry", "lookup_quantizer(%r) is not the class of that name" % case["cls"], "identity")
    import qkeras  # pylint: disable=import-outside-toplevel
    if getattr(qkeras, case["cls"], None) is not cls:
      bad("registry", "qkeras.%s is not qkeras.quantizers.%s" % (case["cls"], case["cls"]), "public-name")
    return {"evals": 2, "nontrivial": 0, "state": "registry:" + case["cls"], "digest": common.digest(ok),
            "violations": viol, "info": {"unmodelled_" + case["cls"]: case["unmodelled"]}}
  opts = _materialize(case["opts"])
  hist = case.get("hist", "")

  def original():
    if hist.startswith("mode:"):
      m1, m2 = hist[5:].split(">")
      Q.set_internal_sigmoid(m1)
      q = cls(**opts)
      Q.set_internal_sigmoid(m2)
      return q
    q = cls(**opts)
    if hist == "hook":
      q._set_trainable_parameter()   # pylint: disable=protected-access
    return q
  try:
    q0 = original()
  except (AssertionError, ValueError, TypeError):
    return {"evals": 0, "nontrivial": 0, "state": "invalid:" + repr(case["opts"]), "digest": "invalid",
            "violations": [], "info": {"invalid_configurations": 1}}
  ps = probes(case["_seed"])
  base = []
  for name, x in ps:
    try:
      base.append(observe(tf, original(), x))
    except (AssertionError, ValueError, TypeError, tf.errors.InvalidArgumentError):
      base.append(None)
  if all(b is None for b in base):
    return {"evals": 0, "nontrivial": 0, "state": "invalid:" + repr(case["opts"]), "digest": "invalid",
            "violations": [], "info": {"invalid_configurations": 1}}
  # does the assignment change the function at all?
  nontrivial = 0
  if opts:
    for (name, x), b in zip(ps, base):
      if b is None:
        continue
      try:
        d = observe(tf, cls(), x)
      except Exception:  # pylint: disable=broad-except
        nontrivial = 1
        break
      if not np.array_equal(d[0], b[0]) or not _same_scale(d[1], b[1]):
        nontrivial = 1
        break
  evals = 0
  co = {}
  _add_supported_quantized_objects(co)
  for route in ROUTES:
    try:
      if route == "from_config":
        q1 = cls.from_config(q0.get_config())
      elif route == "from_config(same dict) twice":
        # (that from_config may normalise the dictionary it is given in place - quantized_bits converts a list-valued
        # post_training_scale to an array - is not something the statement forbids; the second rebuild must still work)
        cfg_shared = q0.get_config()
        cls.from_config(cfg_shared)
        q1 = cls.from_config(cfg_shared)
      elif route == "get_quantizer(dict)":
        q1 = Q.get_quantizer({"class_name": case["cls"], "config": q0.get_config()})
      else:
        ser = tf.keras.utils.serialize_keras_object(q0)
        q1 = tf.keras.utils.deserialize_keras_object(ser, custom_objects=co)
    except Exception as e:  # pylint: disable=broad-except
      bad(route, "rebuilding raised %s: %s" % (type(e).__name__, str(e)[:160]), "raises:" + type(e).__name__)
      continue
    if type(q1) is not cls:
      bad(route, "rebuilt object is a %s" % type(q1).__name__, "type")
      continue
    # which configured option did the rebuilt object lose?  (attribute name == parameter name)
    lost = sorted(n for n in opts if hasattr(q0, n) and hasattr(q1, n) and not _same_val(getattr(q0, n), getattr(q1, n)))
    lost_hint = "lost:" + ",".join(lost) if lost else "with:" + (",".join(sorted(case["opts"])) or "defaults")
    for (name, x), b in zip(ps, base):
      if b is None:
        continue
      evals += 1
      try:
        # a rebuilt quantizer is a fresh object: re-create it per probe exactly like the original was
        if route == "from_config":
          qq = cls.from_config(q0.get_config())
        elif route == "from_config(same dict) twice":
          cfg_shared = q0.get_config()
          cls.from_config(cfg_shared)
          qq = cls.from_config(cfg_shared)
        elif route == "get_quantizer(dict)":
          qq = Q.get_quantizer({"class_name": case["cls"], "config": q0.get_config()})
        else:
          qq = tf.keras.utils.deserialize_keras_object(tf.keras.utils.serialize_keras_object(q0), custom_objects=co)
        y, s = observe(tf, qq, x)
      except Exception as e:  # pylint: disable=broad-except
        bad(route, "rebuilt quantizer raised %s on probe %s: %s" % (type(e).__name__, name, str(e)[:120]),
            lost_hint + ":call-raises")
        break
      if y.shape != b[0].shape:
        bad(route, "options %r: output shape %r differs from the original's %r on probe %s" % (case["opts"], y.shape, b[0].shape, name),
            lost_hint)
        break
      if not np.array_equal(y, b[0]):
        i = int(np.flatnonzero((y != b[0]).reshape(-1))[0])
        bad(route, "options %r: output differs on probe %s (x=%r: %r vs original %r)" % (
            case["opts"], name, float(x.reshape(-1)[i]), float(y.reshape(-1)[i]), float(b[0].reshape(-1)[i])),
            lost_hint)
        break
      if not _same_scale(s, b[1]):
        bad(route, "options %r: scale differs on probe %s" % (case["opts"], name), lost_hint)
        break
  common.reset_keras()
  return {"evals": evals, "transitions": evals + len(ps), "nontrivial": nontrivial,
          "state": case["cls"] + repr(sorted(case["opts"].items(), key=lambda kv: kv[0])) + case.get("hist", ""),
          "digest": common.digest(*[b[0] for b in base if b is not None]), "violations": viol, "traces": evals,
          "info": {"valid_configurations": 1},
          "sample": {"cls": case["cls"], "options": case["opts"], "routes": ROUTES, "probes": len(ps)}}


def _same_cfg(a, b):
  if type(a) is not type(b):
    return False
  if isinstance(a, dict):
    return a.keys() == b.keys() and all(_same_cfg(a[k], b[k]) for k in a)
  if isinstance(a, (list, tuple)):
    return len(a) == len(b) and all(_same_cfg(x, y) for x, y in zip(a, b))
  if isinstance(a, np.ndarray):
    return a.shape == b.shape and bool(np.array_equal(a, b))
  try:
    return bool(a == b) or (a != a and b != b)
  except Exception:  # pylint: disable=broad-except
    return False


def _same_val(a, b):
  try:
    if isinstance(a, np.ndarray) or isinstance(b, np.ndarray):
      return np.array_equal(np.asarray(a), np.asarray(b))
    if hasattr(a, "numpy"):
      a = a.numpy()
    if hasattr(b, "numpy"):
      b = b.numpy()
    return bool(np.all(a == b)) and (isinstance(a, str) == isinstance(b, str))
  except Exception:  # pylint: disable=broad-except
    return False


def _same_scale(a, b):
  if a is None or b is None:
    return a is None and b is None
  return a.shape == b.shape and np.array_equal(a, b)

# (appended: sub-lattices added after the seeded waves; kept out of the original RULE text for readability)
RULE = RULE + "; plus: the same lattice after the layer hook _set_trainable_parameter ran on the original, and with the library's sigmoid mode switched between construction and rebuild; a fourth route rebuilds twice from one dictionary"
