"""C20 - AutoQKeras trials respect the search limits and score smaller models higher.

C20a (kernel H1 x P): the hyper-parameter object handed to the real AutoQKHyperModel.quantize_model(hp) is the
harness's Chooser: hp.Choice(name, values) is a choice point with len(values) alternatives, hp.Fixed one with a
single alternative.  For every program (reference model x quantization config x limit dictionary x
layer_indexes x tune_filters) the ENTIRE choice tree is enumerated and every leaf (trial model) is checked.
C20b (kernel L): ForgivingFactor.delta over (delta_p, delta_n, rate) x a grid of (reference, trial) sizes, and
adjusted_score == metric * (1 + delta).
"""
import copy
import re

import numpy as np

from mc import choices
from mc import common

ID = "C20"
TITLE = "AutoQKeras trials respect the search limits and score smaller models higher"
TECHNIQUE = ("stateless choice-point exploration (complete choice trees) of the real AutoQKHyperModel.quantize_model with "
             "an owned hyper-parameter object, invariants on every leaf; exhaustive lattice for ForgivingFactor.delta")
RULE = ("a: cases = programs (model, quantization config, limit, layer_indexes, tune_filters); states/evaluations = leaves "
        "of the complete choice tree; non-trivial = programs whose tree has more than one leaf and whose limits exclude at "
        "least one configured quantizer; b: cases = (delta_p, delta_n, rate) points, each on all size pairs of the grid")
ASSUMPTIONS = [
    "keras_tuner is not involved: the hyper-parameter object is the harness's (Choice / Fixed are the only methods "
    "quantize_model uses); PROTOCOL_BUFFERS_PYTHON_IMPLEMENTATION=python so that qkeras.autoqkeras imports",
    "a quantizer 'is taken from the configuration' when its printed form equals the printed form of the quantizer built "
    "from a configuration string of that role (kernels after the library's own auto-scale promotion)",
    "reference models of 2-5 layers; at most 3 quantizers per role; trees of at most ~200 leaves per program",
]

QC_SMALL = {
    "kernel": {"quantized_bits(4,0,1)": 4, "binary": 1, "quantized_bits(8,0,1)": 8},
    "bias": {"quantized_bits(4,0,1)": 4, "quantized_bits(8,3,1)": 8},
    "activation": {"quantized_relu(3,1)": 3, "quantized_relu(6,2)": 6},
    "linear": {"quantized_bits(4,1)": 4, "quantized_bits(8,2)": 8},
    "recurrent_kernel": {"quantized_bits(4,0,1)": 4, "ternary": 2},
    "recurrent_activation": {"quantized_relu(3,1)": 3, "binary": 1},
    "pointwise_kernel": {"quantized_bits(4,0,1)": 4, "ternary": 2},
}


def bound(tier):
  return {"programs": len(_programs(tier)), "choice_tree": "complete (no deviation bound)",
          "b_grid": {"delta": [1, 8, 50], "rate": [1.5, 2, 4], "size_ratios": "2^-6 .. 2^6 and +-1 element"}}


def worker_init():
  common.tf_init()


def _programs(tier):
  P = []
  # (model id, limit, layer_indexes, tune_filters)
  lim_class = {"Dense": [4, 8, 4], "Conv2D": [4, 4, 6], "Activation": [6]}
  lim_tight = {"Dense": [1, 4, 3], "Conv2D": [8, 8, 3], "Activation": [4]}
  lim_list = {"Dense": [["binary", "quantized_bits(8,0,1)"], 8, 6], "Conv2D": [4, 4, 4], "Activation": [6]}
  lim_missing = {"Dense": [4, 4, 4]}                         # Conv2D / Activation not limited: must stay untouched
  lim_pattern = {"^conv_a": [4, 4, 3], "Dense": [8, 8, 6], "Activation": [6]}
  for mid in ("conv_dense", "dense_act_dense"):
    for lim in (lim_class, lim_tight, lim_list, lim_missing):
      P.append(dict(model=mid, limit=lim, layer_indexes=None, tune_filters="none"))
  P.append(dict(model="conv_dense", limit=lim_class, layer_indexes=[1, 2], tune_filters="none"))
  P.append(dict(model="conv_dense", limit=lim_class, layer_indexes=[3], tune_filters="none"))
  # a stand-alone Activation (in the limits) OUTSIDE the selected layer indexes stays an Activation
  P.append(dict(model="dense_act_dense", limit=lim_class, layer_indexes=[1, 2], tune_filters="none"))
  P.append(dict(model="dense_act_dense", limit=lim_class, layer_indexes=[1, 2, 4], tune_filters="none"))
  # filter tuning: only the last Dense layer is tunable (exceptions exclude the others): under tf_keras 2.21 a scaled
  # layer that feeds another weight layer cannot be rebuilt from JSON (the consumer's build_config pins its old
  # input width) - an environment limitation, established on the stock layers as well
  P.append(dict(model="dense_act_dense", limit=lim_tight, layer_indexes=None, tune_filters="layer", exceptions="^(d0|d1)$"))
  P.append(dict(model="dense_act_dense", limit=lim_tight, layer_indexes=None, tune_filters="block", exceptions="^(d0|d1)$"))
  P.append(dict(model="grouped_convs", limit=lim_pattern, layer_indexes=None, tune_filters="none"))
  P.append(dict(model="grouped_convs", limit={"^conv_a": [[ "binary", "quantized_bits(4,0,1)"], 8, 6], "Dense": [4, 4, 4]},
                layer_indexes=None, tune_filters="none"))
  # overlapping name patterns: the FIRST matching key of the limit dictionary applies (the scheduler's get_limit and the
  # repository's own examples list the specific entry before the generic one); the later key is the more permissive one
  P.append(dict(model="grouped_convs", limit={"^conv_a_1$": [2, 4, 3], "^conv_": [8, 8, 6], "Dense": [4, 4, 4]},
                layer_indexes=None, tune_filters="none"))
  P.append(dict(model="grouped_convs", limit={"^conv_b$": [1, 4, 3], "^conv_a": [4, 4, 3], ".*": [8, 8, 8]},
                layer_indexes=None, tune_filters="none"))
  P.append(dict(model="rnn_dense", limit={"SimpleRNN": [4, 4, 2, 6], "Dense": [4, 4, 4]}, layer_indexes=None, tune_filters="none"))
  P.append(dict(model="lstm_dense", limit={"LSTM": [8, 4, 2, 3], "Dense": [4, 4, 4]}, layer_indexes=None, tune_filters="none"))
  P.append(dict(model="sep_dense", limit={"SeparableConv2D": [8, 4, 3], "Dense": [4, 4, 4]}, layer_indexes=None, tune_filters="none"))
  # a 4-element default [kernel, bias, recurrent, activation] completing short class entries: the activation slot of a
  # non-recurrent class must receive the activation default, not the recurrent one
  P.append(dict(model="lstm_dense_act", limit={"default": [4, 4, 8, 3], "Dense": [4], "LSTM": [4]}, layer_indexes=None,
                tune_filters="none"))
  P.append(dict(model="conv_dense", limit={"default": [4, 8, 8, 3], "Dense": [4], "Conv2D": [8, 4]}, layer_indexes=None,
                tune_filters="none"))
  if tier == "thorough":
    P.append(dict(model="dense_act_dense", limit=lim_class, layer_indexes=None, tune_filters="layer", exceptions="^(d0|d1)$"))
    P.append(dict(model="grouped_convs", limit=lim_pattern, layer_indexes=[1, 2, 5], tune_filters="none"))
    P.append(dict(model="conv_dense", limit={"default": 4, "Dense": [8], "Conv2D": [2, 8]}, layer_indexes=None, tune_filters="none"))
  return P


def enumerate_cases(tier, seed):
  out = [dict(sub="a", **p) for p in _programs(tier)]
  # size model on hand-built models (quantizer present / absent per tensor): the trials of the search always quantize
  # the bias, so the "reference width where none is applied" half of the clause is exercised here
  for kq in (None, "quantized_bits(4,0,1)", "binary"):
    for bq in (None, "quantized_bits(6,2,1)"):
      for act in (None, "quantized_relu(3,1)", "relu", "softmax"):
        out.append(dict(sub="c", kq=kq, bq=bq, act=act))
  # the same size model on a target with a HISTORY: the reference model is measured first (as the hyper-model's constructor
  # does), then trials of other widths whose unquantized layers carry the reference layers' names; every trial is measured
  # twice in two orders - the size of a model is a function of the model alone
  for kq in (None, "quantized_bits(4,0,1)"):
    for widths in ((2, 6), (6, 2), (3, 3)):
      for act in ("relu", "softmax"):
        out.append(dict(sub="c", hist=True, kq=kq, bq=None, act=act, widths=list(widths)))
  for dp in (1, 8, 50):
    for dn in (1, 8, 50):
      for rate in (1.5, 2.0, 4.0):
        out.append(dict(sub="b", delta_p=dp, delta_n=dn, rate=rate))
  return out


def build_reference(mid):
  tf = common.tf_init()
  L = tf.keras.layers
  if mid == "conv_dense":
    inp = L.Input((6, 6, 3), name="inp")
    x = L.Conv2D(4, 2, activation="relu", name="c1")(inp)
    x = L.Flatten(name="flat")(x)
    x = L.Dense(4, name="d1")(x)
    x = L.Activation("softmax", name="sm")(x)
  elif mid == "dense_act_dense":
    inp = L.Input((5,), name="inp")
    x = L.Dense(4, activation="relu", use_bias=False, name="d0")(inp)
    x = L.Dense(4, name="d1")(x)
    x = L.Activation("relu", name="a1")(x)
    x = L.Dense(2, name="d2")(x)
    x = L.Activation("linear", name="lin")(x)
  elif mid == "grouped_convs":
    inp = L.Input((6, 6, 3), name="inp")
    x = L.Conv2D(4, 2, name="conv_a_1")(inp)
    x = L.Conv2D(4, 2, activation="relu", name="conv_a_2")(x)
    x = L.Conv2D(2, 1, name="conv_b")(x)
    x = L.Flatten(name="flat")(x)
    x = L.Dense(3, name="dense_out")(x)
  elif mid == "rnn_dense":
    inp = L.Input((4, 3), name="inp")
    x = L.SimpleRNN(3, name="rnn")(inp)
    x = L.Dense(2, name="d1")(x)
  elif mid == "lstm_dense":
    inp = L.Input((4, 3), name="inp")
    x = L.LSTM(3, name="lstm")(inp)
    x = L.Dense(2, name="d1")(x)
  elif mid == "lstm_dense_act":
    inp = L.Input((4, 3), name="inp")
    x = L.LSTM(3, name="lstm")(inp)
    x = L.Dense(3, activation="relu", name="d1")(x)
    x = L.Dense(2, activation="relu", name="d2")(x)
  else:
    inp = L.Input((6, 6, 3), name="inp")
    x = L.SeparableConv2D(4, 2, activation="relu", name="sep")(inp)
    x = L.Flatten(name="flat")(x)
    x = L.Dense(2, name="d1")(x)
  m = tf.keras.Model(inp, x)
  m.compile(optimizer="sgd", loss="mse")
  return m


class HP:
  def __init__(self, chooser):
    self.chooser, self.log = chooser, []

  def Choice(self, name, values, default=None, **kw):   # pylint: disable=invalid-name
    values = list(values)
    if not values:
      raise ValueError("empty choice for %s" % name)     # keras_tuner refuses an empty value list as well
    k = self.chooser.pick(name, len(values))
    self.log.append((name, values, values[k]))
    return values[k]

  def Fixed(self, name, value, **kw):   # pylint: disable=invalid-name
    self.chooser.pick(name, 1)
    self.log.append((name, [value], value))
    return value


REGISTERED = ["Dense", "Conv1D", "Conv2D", "DepthwiseConv2D", "SimpleRNN", "LSTM", "GRU", "Bidirectional",
              "Conv2DTranspose", "SeparableConv1D", "SeparableConv2D"]
SEQ = ["SimpleRNN", "LSTM", "GRU", "Bidirectional"]


def canonical(s, kernel=False):
  from qkeras import quantizers as Q  # pylint: disable=import-outside-toplevel
  q = Q.get_quantizer(s)
  if kernel and hasattr(q, "_set_trainable_parameter"):
    q._set_trainable_parameter()   # the layer promotes alpha=None kernels to auto scaling  # pylint: disable=protected-access
  return str(q)


def limit_for(limit, name, cls):
  """(key, entry) that applies to a layer: first matching name pattern, then the class; None if unlimited."""
  for pat in limit:
    if pat != "default" and re.match(pat, name):
      return pat, limit[pat], True
  if cls in limit:
    return cls, limit[cls], False
  return None, None, False


def ref_adjust_limit(limit):
  """Documented completion of the limit dictionary: 'default' is a number or [kernel, bias, (recurrent,) activation];
  a class entry shorter than its role list is completed from the default, role by role."""
  limit = copy.deepcopy(limit)
  d = limit.get("default")
  if d is None:
    d = 8
  if not isinstance(d, list):
    d = [d, d, d, d]
  elif len(d) == 3:
    d = [d[0], d[1], d[0], d[2]]
  for name, entry in list(limit.items()):
    if name == "default" or name not in REGISTERED or not isinstance(entry, list):
      continue
    if name in SEQ:
      full = [d[0], d[1], d[2], d[3]]
      limit[name] = entry + full[len(entry):] if len(entry) < 4 else entry
    else:
      full = [d[0], d[1], d[3]]
      limit[name] = entry + full[len(entry):] if len(entry) < 3 else entry
  return limit


def allowed(qc_role, lim):
  if isinstance(lim, list):
    return {k: qc_role[k] for k in lim}
  return {k: v for k, v in qc_role.items() if v <= lim}


def run_a(case):
  tf = common.tf_init()
  from qkeras.autoqkeras.autoqkeras_internal import AutoQKHyperModel  # pylint: disable=import-outside-toplevel
  from qkeras.autoqkeras.forgiving_metrics import ForgivingFactorBits  # pylint: disable=import-outside-toplevel
  viol = []

  def bad(clause, what, **d):
    if len(viol) < 6 and not any(v["key"] == clause for v in viol):
      viol.append({"key": clause, "what": "%s [model %s, limit %r, layer_indexes %r, tune_filters %s]" % (
          what, case["model"], case["limit"], case["layer_indexes"], case["tune_filters"]), "detail": dict(case=case, **d)})
  ref = build_reference(case["model"])
  target = ForgivingFactorBits(8, 8, 2, config={"default": ["parameters", "activations"]})
  limit_arg = copy.deepcopy(case["limit"])
  hm = AutoQKHyperModel(ref, ["acc"], target=target, limit=limit_arg, tune_filters=case["tune_filters"],
                        tune_filters_exceptions=case.get("exceptions", "^$"), layer_indexes=case["layer_indexes"],
                        quantization_config=copy.deepcopy(QC_SMALL), activation_bits=4)
  limit = ref_adjust_limit(case["limit"])   # the documented completion of short entries, recomputed independently
  leaves = 0
  outcomes = set()
  excluded_some = False
  ref_sizes = target.get_reference(ref)
  state_keys = []

  def run(ch):
    hp = HP(ch)
    hm.groups = {}
    qm, _ = hm.quantize_model(hp)
    return hp, qm

  for trace, (hp, qm) in choices.explore(run, bound=None, max_runs=400):
    leaves += 1
    state_keys.append(common.digest([t[2] for t in trace]))
    chosen = {n: v for n, _, v in hp.log}
    names = [n for n, _, _ in hp.log]
    if len(names) != len(set(names)):
      dup = sorted(set(n for n in names if names.count(n) > 1))
      bad("hp-consulted-twice", "hyper-parameter(s) %r were consulted more than once in one trial" % dup)
    if [l.name for l in qm.layers] != [l.name for l in ref.layers]:
      bad("architecture:names", "trial layers %r != reference %r" % ([l.name for l in qm.layers], [l.name for l in ref.layers]))
      continue
    group_choice = {}
    sig = []
    for i, (rl, ql) in enumerate(zip(ref.layers, qm.layers)):
      cls = rl.__class__.__name__
      qcls = ql.__class__.__name__
      in_idx = case["layer_indexes"] is None or i in case["layer_indexes"]
      key, lim, is_pattern = limit_for(limit, rl.name, cls)
      selected = in_idx and lim is not None and (cls in REGISTERED or cls == "Activation")
      if cls == "Activation":
        a = rl.get_config()["activation"]
        if a == "softmax":
          selected = False
      sig.append(qcls)
      # ---- architecture -------------------------------------------------------------------------
      factor = 1.0
      tunable = selected and not re.search(case.get("exceptions", "^$"), rl.name)
      if case["tune_filters"] == "layer" and ("network_filters_" + rl.name) in chosen:
        factor = chosen["network_filters_" + rl.name]
      elif case["tune_filters"] == "block" and "network_filters" in chosen and tunable and cls in ("Dense", "Conv1D", "Conv2D", "SeparableConv2D"):
        factor = chosen["network_filters"]
      if cls in ("Dense",):
        want_units = max(int(rl.units * factor), 1)
        if ql.units != want_units:
          bad("architecture:filters", "layer %s has %d units, reference %d x factor %r" % (rl.name, ql.units, rl.units, factor))
      elif cls in ("Conv2D", "Conv1D", "SeparableConv2D"):
        want_f = max(int(rl.filters * factor), 1)
        if ql.filters != want_f:
          bad("architecture:filters", "layer %s has %d filters, reference %d x factor %r" % (rl.name, ql.filters, rl.filters, factor))
      # ---- selection ------------------------------------------------------------------------------
      if not selected:
        if qcls != cls:
          bad("quantized-outside-limits", "layer %s (%s, index %d) is outside the limits / layer_indexes but became %s" % (
              rl.name, cls, i, qcls))
        continue
      if cls == "Activation":
        role_cfg = QC_SMALL["linear" if a == "linear" else "activation"]
        ok = allowed(role_cfg, lim[-1] if isinstance(lim, list) else lim)
        if len(ok) < len(role_cfg):
          excluded_some = True
        if qcls != "QActivation":
          bad("not-quantized:Activation", "Activation %s is selected by the limits but stayed %s" % (rl.name, qcls))
          continue
        got = str(ql.quantizer)
        if got not in {canonical(s) for s in ok}:
          bad("activation-layer-quantizer", "QActivation %s uses %s, allowed by configuration and limit %r: %r" % (
              rl.name, got, lim, sorted(ok)))
        continue
      if qcls != "Q" + cls:
        bad("not-quantized:" + cls, "layer %s (%s) is selected by the limits but is a %s" % (rl.name, cls, qcls))
        continue
      roles = [("kernel", 0, True)]
      qs = ql.get_quantizers()
      if cls in SEQ:
        roles = [("kernel", 0, True), ("recurrent_kernel", 2, True), ("bias", 1, False)]
        slot = {"kernel": 0, "recurrent_kernel": 1, "bias": 2}
      elif cls in ("SeparableConv2D", "SeparableConv1D"):
        roles = [("kernel", 0, True), ("pointwise_kernel", 2, True), ("bias", 1, False)]
        slot = {"kernel": 0, "pointwise_kernel": 1, "bias": 2}
      else:
        roles = [("kernel", 0, True), ("bias", 1, False)]
        slot = {"kernel": 0, "bias": 1}
      for role, idx, is_k in roles:
        q = qs[slot[role]]
        if role == "bias" and not rl.use_bias:
          if q is not None:
            bad("bias-quantizer-without-bias", "layer %s has no bias but got bias quantizer %s" % (rl.name, q))
          continue
        ok = allowed(QC_SMALL[role], lim[idx])
        if len(ok) < len(QC_SMALL[role]):
          excluded_some = True
        got = str(q)
        if got not in {canonical(s, kernel=is_k) for s in ok}:
          bad("quantizer-outside-config-or-limit:" + role, "layer %s %s quantizer is %s; configuration entries of role %r within "
              "the limit %r are %r" % (rl.name, role, got, role, lim[idx], sorted(ok)))
        if is_pattern:
          group_choice.setdefault((key, role), set()).add(got)
      # fused activation
      act = ql.cell.activation if cls in SEQ else ql.activation
      ract = rl.get_config().get("activation")
      if ract not in (None, "linear", "softmax"):
        ok = allowed(QC_SMALL["activation"], lim[-1])
        got = str(act)
        if got not in {canonical(s) for s in ok}:
          bad("quantizer-outside-config-or-limit:fused-activation", "layer %s activation is %s; activation entries of the "
              "configuration within the limit %r are %r (hp offered %r)" % (
                  rl.name, got, lim[-1], sorted(ok), [v for n, _, v in hp.log if n.startswith(rl.name) and "activation" in n]))
    for (key, role), got in group_choice.items():
      if len(got) > 1:
        bad("group-shares-one-choice", "layers matched by pattern %r received different %s quantizers %r" % (key, role, sorted(got)))
    outcomes.add(tuple(sig) + tuple(sorted(chosen.items())))
    # ---- size model on this leaf --------------------------------------------------------------------
    tsize = target.get_trial(qm)
    want = 0
    for ql in qm.layers:
      c = ql.__class__.__name__
      out_elems = int(np.prod(ql.output.shape[1:]))
      p = a_ = None
      if c == "InputLayer":
        p, a_ = 0, 8 * out_elems
      elif c in ("Dense", "Conv2D", "Conv1D", "DepthwiseConv2D"):
        p = sum(8 * int(np.prod(w.shape)) for w in ql.get_weights())
        an = ql.get_config().get("activation")
        a_ = 8 * out_elems if an not in (None, "linear") else 0
      elif c in ("QDense", "QConv2D", "QConv1D", "QDepthwiseConv2D"):
        p = 0
        for q, w in zip(ql.get_quantizers(), ql.get_weights()):
          p += (q.bits if q is not None else 8) * int(np.prod(w.shape))
        act = ql.activation
        if act is None or getattr(act, "__name__", "") == "linear":
          a_ = 0
        elif getattr(act, "__name__", "") == "softmax":
          a_ = 8 * out_elems
        else:
          a_ = (act.bits if hasattr(act, "bits") else 8) * out_elems
      elif c in ("Activation", "QActivation"):
        p = 0
        act = ql.activation
        nm = act if isinstance(act, str) else getattr(act, "__name__", "")
        if nm == "linear":
          a_ = 0
        elif nm in ("softmax", "sigmoid"):
          a_ = 8 * out_elems
        else:
          qq = ql.quantizer if c == "QActivation" else None
          a_ = (qq.bits if hasattr(qq, "bits") else 8) * out_elems
      if p is None:
        continue
      got = target.trial_size_dict.get(ql.name)
      if got is None:
        bad("size-model:missing-layer", "layer %s is missing from the size dictionary" % ql.name)
      elif int(got["parameters"]) != p or int(got["activations"]) != a_:
        bad("size-model:" + c, "layer %s (%s): size model says parameters=%r activations=%r, elements x applied bits gives %r / %r" % (
            ql.name, c, got["parameters"], got["activations"], p, a_))
  capped = leaves >= 400
  return {"evals": leaves, "transitions": leaves, "nontrivial": int(leaves > 1 and excluded_some),
          "state_keys": ["%s|%s" % (common.digest(repr(sorted((k, repr(v)) for k, v in case.items()))), s) for s in state_keys],
          "digest": common.digest(sorted(map(repr, outcomes))), "violations": viol, "traces": leaves,
          "info": {"a_leaves": leaves, "a_capped_trees": int(capped)},
          "sample": {"sub": "a", "model": case["model"], "limit": case["limit"], "leaves": leaves,
                     "distinct_trial_models": len(outcomes)}}


def run_b(case):
  tf = common.tf_init()
  from qkeras.autoqkeras.forgiving_metrics.forgiving_factor import ForgivingFactor  # pylint: disable=import-outside-toplevel
  from qkeras.autoqkeras.autoqkeras_internal import AutoQKHyperModel  # pylint: disable=import-outside-toplevel
  viol = []

  def bad(clause, what):
    if len(viol) < 5 and not any(v["key"] == clause for v in viol):
      viol.append({"key": "b:" + clause, "what": "%s (delta_p=%r delta_n=%r rate=%r)" % (
          what, case["delta_p"], case["delta_n"], case["rate"]), "detail": {"case": case}})
  ff = ForgivingFactor(case["delta_p"], case["delta_n"], case["rate"])
  evals = 0
  # sizes are bit counts: 1.3e8 and 2^31 bits are 16 MB / 256 MB models; neighbouring trial sizes differ by single bits
  for refsize in (64.0, 1000.0, 2720.0, 1e6, 134316048.0, 2.0 ** 31):
    ratios = sorted(set([2.0 ** k for k in np.arange(-6, 6.01, 0.5)]))
    trials = sorted(set([refsize * r for r in ratios] + [refsize - 4, refsize - 1, refsize + 1, refsize + 4, refsize]))
    ff.reference_size = refsize
    prev = None
    for t in trials:
      ff.trial_size = t
      d = float(ff.delta())
      evals += 1
      if not np.isfinite(d):
        bad("finite", "delta(%r, %r) = %r" % (refsize, t, d))
        continue
      if t == refsize and d != 0:
        bad("zero-at-equality", "delta(%r, %r) = %r" % (refsize, t, d))
      if t < refsize and not d > 0:
        bad("positive-below", "trial %r < reference %r but delta = %r" % (t, refsize, d))
      if t > refsize and not d < 0:
        bad("negative-above", "trial %r > reference %r but delta = %r" % (t, refsize, d))
      if prev is not None and not d < prev[1]:
        bad("strictly-decreasing", "delta(%r)=%r is not below delta(%r)=%r (reference %r)" % (t, d, prev[0], prev[1], refsize))
      prev = (t, d)

      class _H:    # minimal hyper-model stand-in for the static method
        pass
      score = AutoQKHyperModel.adjusted_score(_H(), d, lambda yt, yp: tf.constant(0.625))
      yt = tf.constant([[1.0, 0.0]])
      got = float(score(yt, yt))
      if abs(got - 0.625 * (1.0 + d)) > 1e-6 * max(1.0, abs(d)):
        bad("adjusted-score", "adjusted_score = %r, metric*(1+delta) = %r" % (got, 0.625 * (1 + d)))
  return {"evals": evals, "transitions": evals, "nontrivial": 1,
          "state": "b:%r" % sorted(case.items()), "digest": common.digest(evals, len(viol)), "violations": viol, "traces": 0,
          "sample": {"sub": "b", "params": case, "size_pairs": evals}}


def _ref_layer_size(ql):
  """(parameter bits, activation bits) of one layer, ref/input/output bits all 8: elements x applied bits."""
  c = ql.__class__.__name__
  out_elems = int(np.prod(ql.output.shape[1:]))
  if c == "InputLayer":
    return 0, 8 * out_elems
  if c in ("Dense", "Conv2D"):
    p = sum(8 * int(np.prod(w.shape)) for w in ql.get_weights())
    nm = getattr(ql.activation, "__name__", "linear")
    return p, (0 if nm == "linear" else 8 * out_elems)
  if c == "Activation":
    nm = getattr(ql.activation, "__name__", "")
    return 0, (0 if nm == "linear" else 8 * out_elems)
  if c in ("QDense", "QConv2D"):
    p = 0
    for q, w in zip(ql.get_quantizers(), ql.get_weights()):
      p += (q.bits if q is not None else 8) * int(np.prod(w.shape))
    act = ql.activation
    nm = getattr(act, "__name__", "")
    if act is None or nm == "linear":
      a = 0
    elif nm == "softmax":
      a = 8 * out_elems
    else:
      a = (act.bits if hasattr(act, "bits") else 8) * out_elems
    return p, a
  return 0, 0


def run_c_hist(case):
  tf = common.tf_init()
  import qkeras  # pylint: disable=import-outside-toplevel
  from qkeras.autoqkeras.forgiving_metrics import ForgivingFactorBits  # pylint: disable=import-outside-toplevel
  L = tf.keras.layers
  viol = []

  def build(width, quantized):
    inp = L.Input((4,), name="inp")
    if quantized:
      x = qkeras.QDense(width, kernel_quantizer=case["kq"], bias_quantizer=case["bq"], name="d0")(inp)
    else:
      x = L.Dense(width, name="d0")(inp)
    x = L.Activation(case["act"], name="a0")(x)           # stays unquantized in every trial
    x = L.Dense(3, activation="relu", name="d1")(x)        # stays unquantized; its kernel follows the width
    x = qkeras.QDense(2, kernel_quantizer="quantized_bits(4,0,1)", bias_quantizer="quantized_bits(4,0,1)", name="d2")(x) \
        if quantized else L.Dense(2, name="d2")(x)
    return tf.keras.Model(inp, x)

  def want(m):
    d = {}
    for ql in m.layers:
      p, a = _ref_layer_size(ql)
      d[ql.name] = (p, a)
    return d

  t = ForgivingFactorBits(8, 8, 2, input_bits=8, output_bits=8, ref_bits=8, config={"default": ["parameters", "activations"]})
  ref = build(4, False)
  refsize = t.get_reference(ref)
  evals = 1
  wref = want(ref)
  if refsize != sum(p + a for p, a in wref.values()):
    viol.append({"key": "size-model:reference", "what": "reference size %r != sum of elements x 8 bits = %r (stress 1)" % (
        refsize, sum(p + a for p, a in wref.values())), "detail": {"case": case}})
  sizes = {}
  for order in (case["widths"], case["widths"][::-1]):
    for w in order:
      m = build(w, True)
      got_total = t.get_trial(m)
      wd = want(m)
      evals += 1
      for name, (p, a) in wd.items():
        g = t.trial_size_dict.get(name)
        evals += 2
        if g is None:
          if p + a:
            viol.append({"key": "size-model:history:missing", "what": "layer %s of the width-%d trial is missing from the size report" % (name, w),
                         "detail": {"case": case}})
          continue
        if int(g["parameters"]) != p or int(g["activations"]) != a:
          viol.append({"key": "size-model:history:" + m.get_layer(name).__class__.__name__,
                       "what": "after the reference (width 4) was measured, layer %s (%s) of the width-%d trial is counted as %r/%r "
                               "parameter/activation bits; elements x applied bits gives %r/%r" % (
                                   name, m.get_layer(name).__class__.__name__, w, int(g["parameters"]), int(g["activations"]), p, a),
                       "detail": {"case": case}})
          break
      tot = sum(p + a for p, a in wd.values())
      if int(got_total) != tot and not viol:
        viol.append({"key": "size-model:history:total", "what": "width-%d trial size %r != sum of layer sizes %r" % (w, got_total, tot),
                     "detail": {"case": case}})
      sizes.setdefault(w, set()).add(int(got_total))
      d = t.delta()
      evals += 1
      # smaller than the (stressed) reference <=> positive bonus
      if (tot < refsize and not d > 0) or (tot > refsize and not d < 0):
        viol.append({"key": "size-model:history:delta-sign", "what": "trial of size %r against reference %r has delta %r" % (tot, refsize, d),
                     "detail": {"case": case}})
  for w, ss in sizes.items():
    if len(ss) != 1 and not viol:
      viol.append({"key": "size-model:history:order", "what": "width-%d trial measured as %r depending on the order of measurements" % (w, sorted(ss)),
                   "detail": {"case": case}})
  return {"evals": evals, "transitions": 5, "nontrivial": 1,
          "state": "c:%r" % sorted((k, repr(v)) for k, v in case.items()), "digest": common.digest(repr(sorted(sizes.items()))),
          "violations": viol[:4], "traces": 0, "sample": {"sub": "c", "case": case, "sizes": {str(k): sorted(v) for k, v in sizes.items()}}}


def run_c(case):
  if case.get("hist"):
    return run_c_hist(case)
  tf = common.tf_init()
  import qkeras  # pylint: disable=import-outside-toplevel
  from qkeras.autoqkeras.forgiving_metrics import ForgivingFactorBits  # pylint: disable=import-outside-toplevel
  viol = []
  L = tf.keras.layers
  inp = L.Input((5, 5, 3), name="inp")
  x = qkeras.QConv2D(2, 2, kernel_quantizer=case["kq"], bias_quantizer=case["bq"], activation=case["act"], name="c")(inp)
  x = L.Flatten(name="f")(x)
  x = qkeras.QDense(3, kernel_quantizer=case["kq"], bias_quantizer=case["bq"], activation=case["act"], name="d")(x)
  x = qkeras.QDense(2, kernel_quantizer=case["bq"], bias_quantizer=case["kq"], name="d2")(x)
  m = tf.keras.Model(inp, x)
  t = ForgivingFactorBits(8, 8, 2, input_bits=8, output_bits=8, ref_bits=8, config={"default": ["parameters", "activations"]})
  t.get_trial(m)
  evals = 0
  for ql in m.layers:
    c = ql.__class__.__name__
    if c not in ("QConv2D", "QDense"):
      continue
    want_p = 0
    for q, w in zip(ql.get_quantizers(), ql.get_weights()):
      want_p += (q.bits if q is not None else 8) * int(np.prod(w.shape))
    out_elems = int(np.prod(ql.output.shape[1:]))
    act = ql.activation
    nm = getattr(act, "__name__", "")
    if act is None or nm == "linear":
      want_a = 0
    elif nm == "softmax":
      want_a = 8 * out_elems
    else:
      want_a = (act.bits if hasattr(act, "bits") else 8) * out_elems
    got = t.trial_size_dict[ql.name]
    evals += 2
    if int(got["parameters"]) != want_p:
      viol.append({"key": "size-model:parameters", "what": "layer %s (kernel quantizer %r, bias quantizer %r): size model counts %r "
                   "parameter bits, elements x applied bits (8 where none) gives %r" % (
                       ql.name, str(ql.get_quantizers()[0]), str(ql.get_quantizers()[1]), got["parameters"], want_p),
                   "detail": {"case": case}})
      break
    if int(got["activations"]) != want_a:
      viol.append({"key": "size-model:activations", "what": "layer %s (activation %r): size model counts %r activation bits, "
                   "expected %r" % (ql.name, str(act), got["activations"], want_a), "detail": {"case": case}})
      break
  return {"evals": evals, "transitions": 1, "nontrivial": int(case["kq"] is not None or case["bq"] is not None),
          "state": "c:%r" % sorted((k, repr(v)) for k, v in case.items()), "digest": common.digest(repr(t.trial_size_dict)),
          "violations": viol, "traces": 0, "sample": {"sub": "c", "case": case}}


def run_case(case):
  common.tf_init()
  common.reset_keras()
  if case["sub"] == "c":
    return run_c(case)
  return run_a(case) if case["sub"] == "a" else run_b(case)

# (appended: sub-lattices added after the seeded waves; kept out of the original RULE text for readability)
RULE = RULE + '; programs include overlapping limit patterns and layer_indexes that leave a stand-alone activation outside; b also at model sizes of 1.3e8 and 2^31 bits with trials 1 and 4 bits apart; c: direct size-model cases and histories on one target (reference measured first, trials of other widths in both orders)'
