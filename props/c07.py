"""C07 - qnoise_factor interpolates exactly between unquantized and quantized outputs; the noise
scheduler drives it monotonically from 0 to 1 on every quantizer that has the knob.

Three explorers, one evidence file:
  a  kernel L : (quantizer configuration x use_ste) x factor alphabet x storage route
  b  kernel H2: every sequence of API events {call, build(variables), update(0|1/2|1), get_config}
                up to a depth bound on one real quantizer, replayed on a fresh object per history
  c  kernel H2: the real QNoiseScheduler attached to a real model, every Keras-protocol-consistent
                hook history (epochs x batches x optional second fit) for every scheduler parameter
                point; a ten-line reference model of the schedule is replayed against it
"""
import itertools

import numpy as np

from mc import common
from mc import fixedpoint as fp
from props import c03

ID = "C07"
TITLE = "qnoise_factor interpolation and noise scheduler"
TECHNIQUE = ("exhaustive enumeration: factor alphabet x storage routes on real quantizers; all API-event "
             "histories to a depth bound on a real quantizer; all hook histories of the real QNoiseScheduler "
             "on a real model against a reference schedule model")
RULE = ("a: cases = (configuration, use_ste), each run for 11 factors x 4 storage routes; b: cases = (class, "
        "use_ste), each explores every event sequence up to the depth bound, states = distinct (built, storage, "
        "factor) triples; c: cases = scheduler parameter points, each replays every protocol-consistent hook "
        "history; evaluations = output elements / states / hook events decided; non-trivial = a case in which "
        "the factor actually took a value strictly between 0 and 1 and changed the output")
ASSUMPTIONS = [
    "TensorFlow eager kernels, tf.Variable assignment and tf_keras callbacks are trusted",
    "interpolation identity decided within 2 float32 ulps of max(|x|,|q|) (one multiply and two adds in float32)",
    "passing a tf.Variable as the *argument* of update_qnoise_factor on a float-backed quantizer (TF1 Variable.eval) is "
    "not one of the storage modes of the statement and is not judged",
    "scheduler histories: <= 3 epochs x <= 3 batches (uniform per epoch) and an optional second fit; parameters "
    "start 0..3, finish-start 0..3, exponent {0.5,1,3}, update_freq 1..3, both freq types, initial 0/2",
]

FACTORS = [0.0, 0.125, 0.25, 0.375, 0.5, 0.625, 0.75, 0.875, 1.0, 0.3, 0.7]
ROUTES = ["ctor", "update_before_call", "update_after_call", "variables_then_update"]
EVENTS = ["call", "build_var", "upd0", "upd05", "upd1", "get_config"]


def bound(tier):
  return {"a": {"factors": FACTORS, "routes": ROUTES},
          "b": {"events": EVENTS, "depth": 4 if tier == "quick" else 5},
          "c": {"epochs": [1, 3], "batches": [1, 3], "second_fit": ["none", "1x1", "2x2"],
                "parameter_points": 576}}


def worker_init():
  common.tf_init()


def _qcfgs(tier):
  out = []
  for cfg in fp.configs(3 if tier == "quick" else 4, classes=("quantized_bits", "quantized_linear", "quantized_relu")):
    out.append(("fixed", cfg))
  for cfg in c03.enumerate_cases(tier, 0):
    if cfg["bits"] <= 3:
      out.append(("po2", cfg))
  return out


def enumerate_cases(tier, seed):
  cases = []
  for fam, cfg in _qcfgs(tier):
    for ste in ((True, False) if cfg["cls"] != "quantized_linear" else (True,)):
      cases.append(dict(sub="a", fam=fam, q=cfg, ste=ste))
  # data-dependent scales ('auto' / 'auto_po2') with integer bits: the unquantized end of the interpolation is the input
  # itself (an INDEPENDENT reference: the call normalises by 2^integer internally and must undo it on every path)
  for cls in ("quantized_bits", "quantized_linear"):
    for alpha in ("auto", "auto_po2"):
      for bits in (3, 4, 8):
        for integer in (0, 1, 2):
          for ste in ((True, False) if cls == "quantized_bits" else (True,)):
            cases.append(dict(sub="a2", cls=cls, alpha=alpha, bits=bits, integer=integer, ste=ste, _seed=seed))
  reps = [("fixed", dict(cls="quantized_bits", bits=4, integer=1, keep_negative=True, symmetric=0, alpha=None)),
          ("fixed", dict(cls="quantized_linear", bits=4, integer=1, keep_negative=True, symmetric=1, alpha=None)),
          ("fixed", dict(cls="quantized_relu", bits=4, integer=1, slope=0.0)),
          ("fixed", dict(cls="quantized_relu", bits=4, integer=1, slope=0.25)),
          ("po2", dict(cls="quantized_po2", bits=4, max_value=None, log2_rounding="rnd", slope=0.0)),
          ("po2", dict(cls="quantized_relu_po2", bits=3, max_value=2.0, log2_rounding="rnd", slope=0.0))]
  for fam, cfg in reps:
    for ste in ((True, False) if cfg["cls"] != "quantized_linear" else (True,)):
      cases.append(dict(sub="b", fam=fam, q=cfg, ste=ste, depth=4 if tier == "quick" else 5))
  for start in range(4):
    for span in range(4):
      for exponent in (3.0, 1.0, 0.5):
        for uf in (1, 2, 3):
          for ft in ("epoch", "step"):
            for init in (0, 2):
              cases.append(dict(sub="c", start=start, finish=start + span, exponent=exponent, update_freq=uf,
                                freq_type=ft, initial=init))
  return cases


def _make(fam, cfg, ste, f=None):
  extra = {}
  if f is not None:
    extra["qnoise_factor"] = f
  if cfg["cls"] != "quantized_linear":
    extra["use_ste"] = ste
  return fp.make(cfg, **extra) if fam == "fixed" else c03.make(cfg, **extra)


def _alphabet(fam, cfg):
  if fam == "fixed":
    return fp.alphabet(cfg)
  x = c03.alphabet(cfg)
  x64 = x.astype(np.float64)
  v0, _ = c03.magnitude(cfg, x64)
  lo0, _ = c03.admissible_exp(cfg, v0)
  return x[np.abs(x64) < 2.0 ** 22 * 2.0 ** lo0]


def _surrogate(fam, cfg, x):
  x64 = x.astype(np.float64)
  if fam == "fixed":
    f = fp.fmt(cfg)
    if cfg["cls"] == "quantized_relu":
      ub = 2.0 ** cfg["integer"] - f["step"]
      s = np.where(x64 >= 0, x64, cfg["slope"] * x64)
      return np.where(x64 <= ub, s, ub)
    return x64
  if cfg["cls"] == "quantized_po2":
    return x64
  s = np.where(x64 >= 0, x64, cfg["slope"] * x64)
  if cfg["max_value"] is not None:
    s = np.where(x64 <= cfg["max_value"], s, cfg["max_value"])
  return s


def _is_code(fam, cfg, y):
  y64 = y.astype(np.float64)
  if fam == "fixed":
    f = fp.fmt(cfg)
    if f["sign"]:
      return np.isin(y64, np.asarray(f["allowed"]))
    c = y64 / f["step"]
    return (c == np.round(c)) & (c >= f["lo"]) & (c <= f["hi"])
  return np.frexp(np.abs(y64))[0] == 0.5


def run_a(case, tf):
  fam, cfg, ste = case["fam"], case["q"], case["ste"]
  viol = []

  def bad(clause, what, **d):
    if len(viol) < 8:
      viol.append({"key": "a:%s:%s" % (cfg["cls"], clause), "what": "%s %s: %s" % (cfg["cls"], clause, what),
                   "detail": dict(case=case, **d)})
  x = _alphabet(fam, cfg)
  # float32 denormals (and products f*x that would be denormal) are flushed to zero by TensorFlow:
  # the alphabet keeps 0 and |x| >= 1e-30 only
  x = x[(x == 0) | (np.abs(x) >= 1e-30)]
  xt = tf.constant(x)
  outs = {}
  for f in FACTORS:
    for route in ROUTES:
      if route == "ctor":
        q = _make(fam, cfg, ste, f)
      else:
        q = _make(fam, cfg, ste)
        if route == "update_after_call":
          q(xt)
        elif route == "variables_then_update":
          q.build(var_name="v", use_variables=True)
        q.update_qnoise_factor(f)
      outs[(f, route)] = np.asarray(q(xt), dtype=np.float32)
  evals = 0
  s_ref = _surrogate(fam, cfg, x)
  y0, y1 = outs[(0.0, "ctor")], outs[(1.0, "ctor")]
  if not np.array_equal(y0.astype(np.float64), s_ref):
    i = int(np.flatnonzero(y0.astype(np.float64) != s_ref)[0])
    bad("f=0", "x=%r: output %r is not the unquantized surrogate %r" % (float(x[i]), float(y0[i]), float(s_ref[i])))
  ok = _is_code(fam, cfg, y1)
  if not ok.all():
    i = int(np.flatnonzero(~ok)[0])
    bad("f=1", "x=%r: output %r is not a code of the format" % (float(x[i]), float(y1[i])))
  evals += 2 * x.size
  moved = False
  for f in FACTORS:
    base = outs[(f, "ctor")]
    for route in ROUTES[1:]:
      evals += x.size
      if not np.array_equal(outs[(f, route)], base):
        i = int(np.flatnonzero(outs[(f, route)] != base)[0])
        bad("route:" + route, "f=%r x=%r: %r via %s but %r via constructor" % (
            f, float(x[i]), float(outs[(f, route)][i]), route, float(base[i])), f=f)
    want = y0.astype(np.float64) + f * (y1.astype(np.float64) - y0.astype(np.float64))
    tol = 2 * common.f32_ulp(np.maximum(np.maximum(np.abs(y0), np.abs(y1)), np.abs(x)))
    d = np.abs(base.astype(np.float64) - want)
    evals += x.size
    if (d > tol).any():
      i = int(np.flatnonzero(d > tol)[0])
      bad("interpolation", "f=%r x=%r: %r != s + f(q-s) = %r (s=%r q=%r)" % (
          f, float(x[i]), float(base[i]), float(want[i]), float(y0[i]), float(y1[i])), f=f)
    if 0 < f < 1 and np.any((base != y0) & (base != y1)):
      moved = True
  return {"evals": evals, "transitions": len(outs), "nontrivial": int(moved),
          "state": "a" + repr(sorted(cfg.items())) + str(ste), "digest": common.digest(*[outs[k] for k in sorted(outs)]),
          "violations": viol, "traces": len(outs),
          "sample": {"sub": "a", "cfg": cfg, "use_ste": ste, "alphabet_size": int(x.size)}}


def run_a2(case, tf):
  from qkeras import quantizers as Q  # pylint: disable=import-outside-toplevel
  viol = []

  def bad(clause, what, **d):
    if len(viol) < 6 and not any(v["key"].endswith(clause + ":" + case["alpha"]) for v in viol):
      viol.append({"key": "a:%s:%s:%s" % (case["cls"], clause, case["alpha"]), "what": "%s(%d,%d,alpha=%r) %s: %s" % (
          case["cls"], case["bits"], case["integer"], case["alpha"], clause, what), "detail": dict(case=case, **d)})

  def make(f=None):
    kw = dict(bits=case["bits"], integer=case["integer"], alpha=case["alpha"])
    if f is not None:
      kw["qnoise_factor"] = f
    if case["cls"] == "quantized_bits":
      kw["use_ste"] = case["ste"]
      kw["symmetric"] = 1
    return getattr(Q, case["cls"])(**kw)
  evals = 0
  moved = False
  digests = []
  for pattern in ("grid7", "ramp", "signs"):
    x = (common.tensor((4, 3), pattern, case["_seed"]) * np.float32(2.0 ** case["integer"])).astype(np.float32)
    x = np.where(np.abs(x) < 1e-30, np.float32(0), x)
    xt = tf.constant(x)
    outs = {}
    for f in FACTORS:
      for route in ROUTES:
        if route == "ctor":
          q = make(f)
        else:
          q = make()
          if route == "update_after_call":
            q(xt)
          elif route == "variables_then_update":
            q.build(var_name="v", use_variables=True)
          q.update_qnoise_factor(f)
        outs[(f, route)] = np.asarray(q(xt), dtype=np.float32)
    y0, y1 = outs[(0.0, "ctor")], outs[(1.0, "ctor")]
    digests.append(common.digest(*[outs[k] for k in sorted(outs)]))
    evals += x.size
    if not np.array_equal(y0, x):
      i = int(np.flatnonzero((y0 != x).reshape(-1))[0])
      bad("f=0", "x=%r: output %r at qnoise_factor 0 is not the input" % (float(x.reshape(-1)[i]), float(y0.reshape(-1)[i])))
    for f in FACTORS:
      base = outs[(f, "ctor")]
      for route in ROUTES[1:]:
        evals += x.size
        if not np.array_equal(outs[(f, route)], base):
          i = int(np.flatnonzero((outs[(f, route)] != base).reshape(-1))[0])
          bad("route:" + route, "f=%r x=%r: %r via %s but %r via constructor" % (
              f, float(x.reshape(-1)[i]), float(outs[(f, route)].reshape(-1)[i]), route, float(base.reshape(-1)[i])))
      want = x.astype(np.float64) + f * (y1.astype(np.float64) - x.astype(np.float64))
      tol = 2 * common.f32_ulp(np.maximum(np.abs(y1), np.abs(x)).astype(np.float64) + 1e-30)
      d = np.abs(base.astype(np.float64) - want)
      evals += x.size
      if (d > tol).any():
        i = int(np.flatnonzero((d > tol).reshape(-1))[0])
        bad("interpolation", "f=%r x=%r: %r != x + f(q-x) = %r (q=%r)" % (
            f, float(x.reshape(-1)[i]), float(base.reshape(-1)[i]), float(want.reshape(-1)[i]), float(y1.reshape(-1)[i])))
      if 0 < f < 1 and np.any((base != x) & (base != y1)):
        moved = True
  return {"evals": evals, "transitions": 3 * len(FACTORS) * len(ROUTES), "nontrivial": int(moved),
          "state": "a2" + repr(sorted((k, repr(v)) for k, v in case.items())), "digest": common.digest(*digests),
          "violations": viol, "traces": 3 * len(FACTORS) * len(ROUTES), "sample": {"sub": "a2", "case": case}}


def run_b(case, tf):
  fam, cfg, ste, depth = case["fam"], case["q"], case["ste"], case["depth"]
  viol = []

  def bad(clause, what, **d):
    if len(viol) < 8:
      viol.append({"key": "b:%s:%s" % (cfg["cls"], clause), "what": "%s %s: %s" % (cfg["cls"], clause, what),
                   "detail": dict(case=case, **d)})
  x = _alphabet(fam, cfg)[::7]
  xt = tf.constant(x)
  ref = {f: np.asarray(_make(fam, cfg, ste, f)(xt), dtype=np.float32) for f in (0.0, 0.5, 1.0)}
  states = set()
  transitions = 0
  histories = 0
  obs = []
  val = {"upd0": 0.0, "upd05": 0.5, "upd1": 1.0}
  for d in range(0, depth + 1):
    for hist in itertools.product(EVENTS, repeat=d):
      # enabled-events filter: build(variables) is offered only while the knob is still float-backed
      q = _make(fam, cfg, ste)
      cur, var, okhist = 1.0, False, True
      for ev in hist:
        if ev == "build_var":
          if var:
            okhist = False
            break
          q.build(var_name="v", use_variables=True)
          var = True
        elif ev == "call":
          y = np.asarray(q(xt), dtype=np.float32)
          if not np.array_equal(y, ref[cur]):
            bad("call-after-history", "history %r: output differs from a quantizer constructed with f=%r" % (hist, cur),
                history=list(hist))
        elif ev == "get_config":
          got = q.get_config().get("qnoise_factor")
          if got is None or float(got) != cur:
            bad("get_config", "history %r: get_config reports %r, last factor set is %r" % (hist, got, cur),
                history=list(hist))
        else:
          q.update_qnoise_factor(val[ev])
          cur = val[ev]
        transitions += 1
        states.add((bool(q.built), var, cur))
      if not okhist:
        continue
      histories += 1
      y = np.asarray(q(xt), dtype=np.float32)
      transitions += 1
      kind = "variable" if isinstance(q.qnoise_factor, tf.Variable) else "float"
      if (kind == "variable") != var:
        bad("storage", "history %r: storage is %s" % (hist, kind), history=list(hist))
      if not np.array_equal(y, ref[cur]):
        bad("final-call", "history %r: output differs from a quantizer constructed with f=%r" % (hist, cur),
            history=list(hist))
      got = q.get_config().get("qnoise_factor")
      if got is None or float(got) != cur:
        bad("get_config", "history %r: get_config reports %r, last factor set is %r" % (hist, got, cur),
            history=list(hist))
      if d == depth and len(obs) < 2000:
        obs.append(common.digest(y))
  return {"evals": histories, "transitions": transitions, "nontrivial": int(len(states) > 4),
          "state_keys": ["b|%s|%s|%r" % (cfg["cls"], ste, s) for s in states],
          "digest": common.digest(histories, transitions, sorted(states), obs[:200]), "violations": viol,
          "traces": histories, "info": {"b_histories": histories},
          "sample": {"sub": "b", "cfg": cfg, "use_ste": ste, "depth": depth, "histories": histories,
                     "example_history": list(EVENTS[:depth])}}


def _knob_quantizers(model):
  """Independent walk: every object reachable from a layer's attributes that carries the knob."""
  found = []
  for layer in model.layers:
    for v in vars(layer).values():
      items = v if isinstance(v, (list, tuple)) else [v]
      for it in items:
        if hasattr(it, "qnoise_factor") and hasattr(it, "update_qnoise_factor") and \
            not any(it is f for _, f in found):
          found.append((layer.name, it))
  return found


def _build_model():
  tf = common.tf_init()
  import qkeras  # pylint: disable=import-outside-toplevel
  L = tf.keras.layers
  inp = L.Input((6,), name="in")
  x = qkeras.QDense(5, kernel_quantizer="quantized_bits(4,0,1)", bias_quantizer="quantized_bits(4,0,1)",
                    activation="quantized_relu(4,1)", name="d_fused")(inp)
  x = qkeras.QDense(4, kernel_quantizer="quantized_po2(4)", bias_quantizer="ternary()", name="d_po2")(x)
  x = qkeras.QActivation("quantized_relu(3,1)", name="act")(x)
  x = qkeras.QDense(3, kernel_quantizer="binary()", bias_quantizer=None, name="d_bin")(x)
  x = qkeras.QActivation("quantized_bits(5,1,1)", name="act2")(x)
  return tf.keras.Model(inp, x)


def _factor(q):
  tf = common.tf_init()
  v = q.qnoise_factor
  return float(v.numpy()) if isinstance(v, tf.Variable) else float(v)


def run_c(case, tf):
  from qkeras.callbacks import QNoiseScheduler  # pylint: disable=import-outside-toplevel
  viol = []

  def bad(clause, what, **d):
    if len(viol) < 8:
      viol.append({"key": "c:%s" % clause, "what": "scheduler %s: %s" % (clause, what), "detail": dict(case=case, **d)})
  model = _build_model()
  knobs = _knob_quantizers(model)
  start, finish, ex, uf, ft, init = (case[k] for k in ("start", "finish", "exponent", "update_freq", "freq_type",
                                                         "initial"))

  def ref_value(step):
    if step < start:
      return 0.0
    if step >= finish or start == finish:
      return 1.0
    return 1.0 - float(np.power(float(finish - step) / float(finish - start), ex))
  states, transitions, events, hists = set(), 0, 0, 0
  inter = False
  trace_digest = []
  for E in (1, 2, 3):
    for B in (1, 2, 3):
      for second in ((0, 0), (1, 1), (2, 2)):
        hists += 1
        cb = QNoiseScheduler(start=start, finish=finish, freq_type=ft, update_freq=uf,
                             initial_step_or_epoch=init, exponent=ex)
        cb.set_model(model)
        n_iter, cur, last = 0, None, -1.0
        hist = []
        fits = [(E, B)] + ([second] if second[0] else [])
        for (ne, nb) in fits:
          seq = ["train_begin"]
          for e in range(ne):
            seq.append(("epoch_begin", e))
            seq += [("batch_begin", b) for b in range(nb)]
            seq.append(("epoch_end", e))
          for ev in seq:
            hist.append(ev if isinstance(ev, str) else ev[0])
            fired = False
            if ev == "train_begin":
              cb.on_train_begin()
              if cur is None:
                cur = 0.0
            elif ev[0] == "epoch_begin":
              cb.on_epoch_begin(ev[1])
              fired = ft == "epoch"
            elif ev[0] == "batch_begin":
              cb.on_train_batch_begin(ev[1])
              fired = ft == "step"
            else:
              cb.on_epoch_end(ev[1])
            events += 1
            transitions += 1
            if fired:
              step = init + n_iter
              if step % uf == 0:
                cur = ref_value(step)
                # the clauses of the statement at an update step
                got = cb.qnoise_factor
                if step < start and got != 0.0:
                  bad("zero-before-start", "step %d < start %d but factor %r" % (step, start, got), history=hist[-12:])
                if step >= finish and got != 1.0:
                  bad("one-from-finish", "step %d >= finish %d but factor %r" % (step, finish, got), history=hist[-12:])
              n_iter += 1
            got = cb.qnoise_factor
            if got is None or abs(float(got) - cur) > 1e-12:
              bad("schedule-model", "after %r: callback factor %r, reference schedule %r" % (hist[-3:], got, cur),
                  history=hist[-12:])
              break
            if float(got) < last - 1e-12:
              bad("non-decreasing", "factor went from %r to %r" % (last, got), history=hist[-12:])
            last = max(last, float(got))
            if 0.0 < float(got) < 1.0:
              inter = True
            vals = []
            for lname, q in knobs:
              v = _factor(q)
              vals.append(round(v, 6))
              if abs(v - np.float32(got)) > 1e-6:
                bad("applied-to-every-quantizer:" + lname + ":" + type(q).__name__,
                    "after %r: quantizer %s of layer %s has factor %r, scheduler says %r" % (
                        hist[-2:], type(q).__name__, lname, v, got), history=hist[-12:])
            if int(cb.num_iters) != n_iter:
              bad("iteration-count", "num_iters %r != %d" % (cb.num_iters, n_iter))
            states.add((n_iter, tuple(vals), round(float(got), 9)))
        trace_digest.append((len(hist), round(float(cb.qnoise_factor), 9) if cb.qnoise_factor is not None else None))
  return {"evals": events, "transitions": transitions, "nontrivial": int(inter),
          "state_keys": ["c|%r|%r" % (sorted(case.items()), s) for s in states],
          "digest": common.digest(trace_digest), "violations": viol, "traces": hists,
          "info": {"c_histories": hists, "knob_quantizers": len(knobs)},
          "sample": {"sub": "c", "params": case, "histories": hists,
                     "knob_quantizers": [(l, type(q).__name__) for l, q in knobs]}}


def run_case(case):
  tf = common.tf_init()
  common.reset_keras()
  if case["sub"] == "a":
    return run_a(case, tf)
  if case["sub"] == "a2":
    return run_a2(case, tf)
  if case["sub"] == "b":
    return run_b(case, tf)
  return run_c(case, tf)

# (appended: sub-lattices added after the seeded waves; kept out of the original RULE text for readability)
RULE = RULE + '; a2: data-dependent scales (auto / auto_po2) x bits x integer bits against the independent reference s(x) = x, 11 factors x 4 storage routes x 3 tensor patterns'
