"""C13 - saving, cloning or reloading a quantized model preserves its predictions.

Kernel P x H2.  Programs: one model per (supported quantized layer class, quantizer variant) where the
variant is one point of the deviation<=1 slice of the C09 option lattice (every constructor option of
every quantizer class non-default once) placed in the layer's main weight slot or activation slot.
Histories: every sequence of the operations {json, clone, h5} up to depth 2 (prefix-shared: 3 + 9 model
states per program), each state compared with the original: bit-identical predictions on two inputs,
identical weights, identical printed quantizers of every layer.  No custom objects are ever supplied.
"""
import itertools
import os
import shutil
import tempfile

import numpy as np

from mc import common
from props import c09

ID = "C13"
TITLE = "saving, cloning or reloading a quantized model preserves its predictions"
TECHNIQUE = ("exhaustive enumeration of single/two-layer model programs (layer class x quantizer option variant) x all "
             "operation histories over {json round trip, clone_model, HDF5 save + load_qmodel} to depth 2 on the real "
             "utilities, differential bit-exact oracle against the original model")
RULE = ("cases = (layer class, slot, quantizer class, one non-default option); each explores the 12 operation histories of "
        "depth <= 2; states = models reached; evaluations = model states compared; non-trivial = the option changes the "
        "model's predictions relative to the same model with the default-constructed quantizer")
ASSUMPTIONS = [
    "tf_keras model (de)serialisation and HDF5 I/O are trusted; files live in a per-execution temp dir under $TMPDIR "
    "(default /var/tmp), removed afterwards",
    "QGRU with reset_after=False; transposed convolutions and QAdaptiveActivation are not in the program set",
    "quantizer variants whose original model cannot be built or called are dropped (counted as invalid)",
]

OPS = ["json", "clone", "h5"]
W_CLASSES = ["quantized_bits", "quantized_linear", "quantized_po2", "binary", "ternary", "stochastic_binary",
             "stochastic_ternary"]
A_CLASSES = ["quantized_relu", "quantized_tanh", "quantized_sigmoid", "quantized_relu_po2", "quantized_hswish",
             "quantized_ulaw", "quantized_bits", "quantized_linear"]  # bernoulli samples at inference too: no deterministic prediction to preserve
LAYERS = ["QDense", "QConv1D", "QConv2D", "QDepthwiseConv2D", "QSeparableConv1D", "QSeparableConv2D", "QSimpleRNN",
          "QLSTM", "QGRU", "QBidirectional", "QActivation", "QBatchNormalization", "QConv2DBatchnorm",
          "QDepthwiseConv2DBatchnorm", "QAveragePooling2D", "QGlobalAveragePooling2D", "QScaleShift"]


def bound(tier):
  return {"history_depth": 2, "operations": OPS, "layers": LAYERS,
          "pair_variants": "one mode flag x one other non-default option, on QActivation (activation classes) and QDense (weight classes)",
          "variants": "deviation<=1 slice of the C09 lattice per quantizer class; thorough: every variant on every "
                      "(layer, slot) with all 12 histories; quick: see enumerate_cases"}


def worker_init():
  common.tf_init()


def _variants(classes):
  out = []
  for qc in classes:
    params = c09._signature(qc)
    out.append((qc, {}))
    for n, d in params:
      for v in c09.VALUES.get(n, []):
        if v == "FLIP":
          v = (not d) if isinstance(d, bool) else (0 if d else 1)
        if v in ("ARRAY", "PTS"):
          continue
        if v != d or type(v) is not type(d):
          out.append((qc, {n: v}))
  return out


FLAGS = ("symmetric", "keep_negative", "use_ste", "use_variables", "use_real_sigmoid", "use_01", "use_sigmoid",
         "is_quantized_clip", "use_real_tanh", "quadratic_approximation")


def _pair_variants(classes):
  """Two-option variants: one mode flag switched together with one other non-default option (a value that is only read -
  and therefore only has to survive a round trip - in the switched mode: relu_upper_bound under an unquantized clip)."""
  out = []
  for qc in classes:
    singles = [o for c, o in _variants([qc]) if o]
    flags = [o for o in singles if list(o)[0] in FLAGS]
    # around the default constructor and, for the activation classes, around the second base points of the C09 lattice
    # (a clip bound is invisible inside the default range [0, 1): quantized_relu(4, 2) makes it observable)
    bases = [{}] + (c09.BASES.get(qc, []) if qc in A_CLASSES and qc not in W_CLASSES else [])
    for base in bases:
      for f in flags:
        for o in singles:
          if (list(o)[0] not in FLAGS or list(o)[0] > list(f)[0]) and not (set(o) | set(f)) & set(base):
            out.append((qc, dict(base, **f, **o)))
  return out


def enumerate_cases(tier, seed):
  out = []
  wv, av = _variants(W_CLASSES), _variants(A_CLASSES)
  # two-option variants on the cheapest host layers, depth-1 histories (quick) / all histories (thorough)
  for layer, slot, vs in (("QActivation", "activation", _pair_variants(A_CLASSES)), ("QDense", "weight", _pair_variants(W_CLASSES))):
    for qc, opts in vs:
      out.append(dict(layer=layer, slot=slot, qcls=qc, opts=opts, deep="all" if tier == "thorough" else "none", pair=True, _seed=seed))
  for layer in LAYERS:
    slots = []
    if layer not in ("QActivation", "QAveragePooling2D", "QGlobalAveragePooling2D"):
      slots.append(("weight", wv))
    if layer in ("QAveragePooling2D", "QGlobalAveragePooling2D"):
      slots.append(("weight", [v for v in wv if v[0] in ("quantized_bits", "quantized_linear", "quantized_po2")]))
    if layer not in ("QBatchNormalization", "QBidirectional"):
      slots.append(("activation", av))
    for slot, vs in slots:
      # quick: QDense (weight slot) and QActivation see every variant with the depth-1 histories, every 8th of
      # them with all 12 histories; every other (layer, slot) sees every 16th variant (offset by the layer index,
      # so that the union over layers still covers every variant) with the depth-1 histories + {h5>clone, json>h5}
      full = tier == "thorough" or (layer, slot) in (("QDense", "weight"), ("QActivation", "activation"))
      for i, (qc, opts) in enumerate(vs):
        if not full and i % 16 != (LAYERS.index(layer) % 16):
          continue
        deep = "all" if (tier == "thorough" or (full and i % 8 == 0)) else ("none" if full else "two")
        out.append(dict(layer=layer, slot=slot, qcls=qc, opts=opts, deep=deep, _seed=seed))
  # histories that start from a non-initial model state: the target layer frozen (layer.trainable = False) before the
  # round trip, and a statistics-only batch normalisation (no trainable weight at all)
  for layer in ("QDense", "QConv2D", "QLSTM", "QBatchNormalization", "QConv2DBatchnorm"):
    out.append(dict(layer=layer, slot="weight", qcls="quantized_bits", opts={"bits": 4}, deep="two", frozen=True, _seed=seed))
  out.append(dict(layer="QBatchNormalization", slot="weight", qcls="quantized_bits", opts={"bits": 4}, deep="two",
                  stats_only=True, _seed=seed))
  # models that mix library layers with a layer class of the user's own: the caller passes custom_objects for HIS class,
  # the library still has to supply its own classes and quantizers on every route
  for layer, slot, qc in (("QDense", "weight", "quantized_bits"), ("QConv2D", "weight", "quantized_po2"),
                          ("QActivation", "activation", "quantized_relu"), ("QLSTM", "weight", "ternary"),
                          ("QDepthwiseConv2D", "weight", "quantized_bits"), ("QDense", "activation", "quantized_tanh")):
    out.append(dict(layer=layer, slot=slot, qcls=qc, opts={}, deep="all" if tier == "thorough" else "two", user_layer=True,
                    _seed=seed))
  # quantizer OBJECTS with a past: the object was already applied to data before it was handed to the layer (a scale has
  # been recorded on it); and a folded layer built without a bias quantizer that received one from
  # populate_bias_quantizer_from_accumulator.  The round trip starts from what the model does NOW.
  for layer, slot, qc in (("QDense", "weight", "quantized_bits"), ("QConv2D", "weight", "quantized_bits"),
                          ("QDense", "weight", "binary"), ("QDense", "weight", "ternary"), ("QDense", "weight", "quantized_linear"),
                          ("QDense", "weight", "quantized_po2"), ("QActivation", "activation", "quantized_relu")):
    out.append(dict(layer=layer, slot=slot, qcls=qc, opts={}, deep="two", pre_called=True, _seed=seed))
  for layer in ("QConv2DBatchnorm", "QDepthwiseConv2DBatchnorm"):
    out.append(dict(layer=layer, slot="weight", qcls="quantized_bits", opts={"bits": 6, "integer": 1, "alpha": 1.0}, deep="two",
                    populate=True, _seed=seed))
  return out


_USER_LAYER = []


def user_layer_class():
  """A layer class that exists only in the caller's program (registered nowhere)."""
  if not _USER_LAYER:
    tf = common.tf_init()

    class UserScale(tf.keras.layers.Layer):
      def __init__(self, factor=1.5, **kwargs):
        super().__init__(**kwargs)
        self.factor = factor

      def call(self, inputs):
        return inputs * self.factor

      def get_config(self):
        return dict(super().get_config(), factor=self.factor)
    _USER_LAYER.append(UserScale)
  return _USER_LAYER[0]


def build(case, default=False):
  tf = common.tf_init()
  import qkeras  # pylint: disable=import-outside-toplevel
  from qkeras import quantizers as Q  # pylint: disable=import-outside-toplevel
  L = tf.keras.layers
  q = getattr(Q, case["qcls"])(**({} if default else case["opts"]))
  if case.get("pre_called"):
    q(tf.constant(common.tensor((4, 3), "grid7", case["_seed"])))
  base_w = "quantized_bits(4,0,1)"
  layer, slot = case["layer"], case["slot"]
  wq = q if slot == "weight" else base_w
  act = q if slot == "activation" else None
  shapes = {"QDense": (5,), "QConv1D": (6, 3), "QSeparableConv1D": (6, 3), "QSimpleRNN": (4, 3), "QLSTM": (4, 3),
            "QGRU": (4, 3), "QBidirectional": (4, 3), "QActivation": (5,), "QBatchNormalization": (4, 3), "QScaleShift": (5,)}
  shape = shapes.get(layer, (5, 5, 3))
  inp = L.Input(shape, name="inp")
  kw = dict(name="target")
  if layer == "QDense":
    lyr = qkeras.QDense(3, kernel_quantizer=wq, bias_quantizer=base_w, activation=act, **kw)
  elif layer == "QConv1D":
    lyr = qkeras.QConv1D(2, 2, kernel_quantizer=wq, bias_quantizer=base_w, activation=act, **kw)
  elif layer == "QConv2D":
    lyr = qkeras.QConv2D(2, 2, kernel_quantizer=wq, bias_quantizer=base_w, activation=act, **kw)
  elif layer == "QDepthwiseConv2D":
    lyr = qkeras.QDepthwiseConv2D(2, depthwise_quantizer=wq, bias_quantizer=base_w, activation=act, **kw)
  elif layer == "QSeparableConv1D":
    lyr = qkeras.QSeparableConv1D(2, 2, depthwise_quantizer=wq, pointwise_quantizer=base_w, bias_quantizer=base_w,
                                  activation=act, **kw)
  elif layer == "QSeparableConv2D":
    lyr = qkeras.QSeparableConv2D(2, 2, depthwise_quantizer=base_w, pointwise_quantizer=wq, bias_quantizer=base_w,
                                  activation=act, **kw)
  elif layer in ("QSimpleRNN", "QLSTM", "QGRU"):
    extra = dict(reset_after=False) if layer == "QGRU" else {}
    a = {} if act is None else dict(activation=act)
    lyr = getattr(qkeras, layer)(2, kernel_quantizer=wq, recurrent_quantizer=base_w, bias_quantizer=base_w, **a, **extra, **kw)
  elif layer == "QBidirectional":
    lyr = qkeras.QBidirectional(qkeras.QLSTM(2, kernel_quantizer=wq, recurrent_quantizer=base_w, bias_quantizer=base_w,
                                             name="inner"), **kw)
  elif layer == "QActivation":
    lyr = qkeras.QActivation(act, **kw)
  elif layer == "QBatchNormalization":
    if case.get("stats_only"):
      kw = dict(kw, center=False, scale=False)
    lyr = qkeras.QBatchNormalization(gamma_quantizer=wq, beta_quantizer=base_w, **kw)
  elif layer == "QConv2DBatchnorm":
    lyr = qkeras.QConv2DBatchnorm(2, 2, kernel_quantizer=wq, bias_quantizer=None if case.get("populate") else base_w,
                                  activation=act, **kw)
  elif layer == "QDepthwiseConv2DBatchnorm":
    lyr = qkeras.QDepthwiseConv2DBatchnorm(2, depthwise_quantizer=wq, bias_quantizer=None if case.get("populate") else base_w,
                                           activation=act, **kw)
  elif layer == "QAveragePooling2D":
    lyr = qkeras.QAveragePooling2D(2, average_quantizer=wq if slot == "weight" else "quantized_bits(8,0,1,alpha=1)",
                                   activation=act, **kw)
  elif layer == "QGlobalAveragePooling2D":
    lyr = qkeras.QGlobalAveragePooling2D(average_quantizer=wq if slot == "weight" else "quantized_bits(8,0,1,alpha=1)",
                                         activation=act, **kw)
  else:
    lyr = qkeras.QScaleShift(weight_quantizer=wq, bias_quantizer=base_w, activation=act, **kw)
  if case.get("frozen"):
    lyr.trainable = False
  x = lyr(inp)
  if case.get("user_layer"):
    x = user_layer_class()(factor=0.75, name="user")(x)
  if len(x.shape) > 2:
    x = L.Flatten(name="flat")(x)
  x = qkeras.QDense(2, kernel_quantizer="quantized_bits(6,0,1)", bias_quantizer="quantized_bits(6,0,1)", name="head")(x)
  model = tf.keras.Model(inp, x)
  for i, l in enumerate(model.layers):
    ws = l.get_weights()
    if ws:
      new = []
      for j, w in enumerate(ws):
        if w.ndim == 0:          # the iteration counter of the folded layers
          new.append(w)
          continue
        v = common.tensor(w.shape, "grid7", i + j + case["_seed"]) * np.float32(0.7)
        if "variance" in l.weights[j].name:
          v = np.abs(v) + np.float32(0.3)
        elif w.ndim == 1:
          v = v + np.float32(0.05 * (j + 1))
        new.append(v.astype(np.float32))
      l.set_weights(new)
  if case.get("populate"):
    from qkeras import bn_folding_utils  # pylint: disable=import-outside-toplevel
    model = bn_folding_utils.populate_bias_quantizer_from_accumulator(model, [Q.quantized_bits(4, 1, 1)])
  return model, (2,) + shape


def observe(model, xs):
  tf = common.tf_init()
  ys = [np.asarray(model(tf.constant(x), training=False), dtype=np.float32) for x in xs]
  qs = []
  for l in model.layers:
    if hasattr(l, "get_quantizers"):
      qs.append([_safe_str(q) for q in l.get_quantizers()])
    else:
      qs.append(None)
  return ys, qs, [w.copy() for w in model.get_weights()]


def _safe_str(q):
  try:
    return str(q)
  except Exception as e:  # pylint: disable=broad-except
    return "<str raises %s>" % type(e).__name__


def apply_op(op, model, tmpdir, tag, user=False):
  from qkeras import utils as qutils  # pylint: disable=import-outside-toplevel
  co = {"UserScale": user_layer_class()} if user else None
  if op == "json":
    m = qutils.quantized_model_from_json(model.to_json(), **({"custom_objects": co} if co else {}))
    m.set_weights(model.get_weights())
    return m
  if op == "clone":
    return qutils.clone_model(model, **({"custom_objects": co} if co else {}))
  path = os.path.join(tmpdir, "m_%s.h5" % tag)
  model.save(path)
  return qutils.load_qmodel(path, compile=False, **({"custom_objects": co} if co else {}))


def run_case(case):
  tf = common.tf_init()
  common.reset_keras()
  viol = []

  def bad(clause, what, **d):
    key = "%s:%s%s" % (clause, case["qcls"], ":user-layer" if case.get("user_layer") else (
        ":used-before" if case.get("pre_called") else (":populated-bias" if case.get("populate") else "")))
    if len(viol) < 6 and not any(v["key"] == key for v in viol):
      viol.append({"key": key, "what": what, "detail": dict(case=case, **d)})
  try:
    model, xshape = build(case)
    xs = [common.tensor(xshape, "ramp", case["_seed"]), common.tensor(xshape, "signs", case["_seed"])]
    y0, q0, w0 = observe(model, xs)
  except (AssertionError, ValueError, TypeError, tf.errors.InvalidArgumentError):
    return {"evals": 0, "nontrivial": 0, "state": "invalid", "digest": "invalid", "violations": [],
            "info": {"invalid_programs": 1}}
  nontrivial = 0
  if case["opts"] and (case.get("deep") == "all" or case["layer"] in ("QDense", "QActivation")):
    # (measured only where it is cheap: counted conservatively as trivial elsewhere)
    try:
      common.reset_keras()
      dm, _ = build(case, default=True)
      yd, _, _ = observe(dm, xs)
      nontrivial = int(any(not np.array_equal(a, b) for a, b in zip(y0, yd)))
    except Exception:  # pylint: disable=broad-except
      nontrivial = 1
  tmpdir = tempfile.mkdtemp(prefix="qk-verif-c13-", dir=os.environ.get("TMPDIR", "/var/tmp"))
  states = 0
  digests = []
  try:
    level1 = {}
    deep = case.get("deep", "all")
    hists = [(o,) for o in OPS]
    if deep == "all":
      hists += list(itertools.product(OPS, repeat=2))
    elif deep == "two":
      hists += [("h5", "clone"), ("json", "h5")]
    for hist in hists:
      src = model if len(hist) == 1 else level1.get(hist[0])
      if src is None:
        continue
      tag = "-".join(hist)
      try:
        m = apply_op(hist[-1], src, tmpdir, tag, user=bool(case.get("user_layer")))
      except Exception as e:  # pylint: disable=broad-except
        bad("op-raises:%s:%s" % (hist[-1], type(e).__name__), "history %r on %s(%s=%s(%r)): %s raised %s: %s" % (
            list(hist), case["layer"], case["slot"], case["qcls"], case["opts"], hist[-1], type(e).__name__, str(e)[:200]),
            history=list(hist))
        continue
      if len(hist) == 1:
        level1[hist[0]] = m
      states += 1
      try:
        y, q, w = observe(m, xs)
      except Exception as e:  # pylint: disable=broad-except
        bad("reloaded-call-raises:%s" % hist[-1], "history %r: calling the rebuilt model raised %s: %s" % (
            list(hist), type(e).__name__, str(e)[:160]), history=list(hist))
        continue
      digests.append(common.digest(*y))
      lost = ",".join(sorted(case["opts"])) or "defaults"
      if len(w) != len(w0) or any(not np.array_equal(a, b) for a, b in zip(w, w0)):
        bad("weights:%s" % hist[-1], "history %r: weights differ from the original" % (list(hist),), history=list(hist))
      if q != q0:
        bad("quantizers:%s:%s" % (hist[-1], lost), "history %r: layer quantizers %r, original %r" % (
            list(hist), [x for x in q if x][:2], [x for x in q0 if x][:2]), history=list(hist))
      if any(not np.array_equal(a, b) for a, b in zip(y, y0)):
        bad("predictions:%s:%s" % (hist[-1], lost), "history %r on %s(%s=%s(%r)): predictions differ (max |d| = %g)" % (
            list(hist), case["layer"], case["slot"], case["qcls"], case["opts"],
            max(float(np.max(np.abs(a.astype(np.float64) - b))) for a, b in zip(y, y0))), history=list(hist))
  finally:
    shutil.rmtree(tmpdir, ignore_errors=True)
  return {"evals": states, "transitions": states, "nontrivial": nontrivial,
          "state_keys": ["%s|%s|%s|%r|%d" % (case["layer"], case["slot"], case["qcls"], case["opts"], i) for i in range(states + 1)],
          "digest": common.digest(*y0, digests), "violations": viol, "traces": states,
          "sample": {"layer": case["layer"], "slot": case["slot"], "quantizer": case["qcls"], "options": case["opts"],
                     "histories": states}}

# (appended: sub-lattices added after the seeded waves; kept out of the original RULE text for readability)
RULE = RULE + '; plus: frozen / statistics-only layers, models with a user-defined layer reloaded with custom_objects, quantizer objects that were applied to data before being handed to a layer, folded layers whose bias quantizer came from populate_bias_quantizer_from_accumulator'
