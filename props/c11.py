"""C11 - quantized layers equal their Keras layer run on pre-quantized weights (drop-in).

Kernel P (single-layer programs) x L (geometry lattice x quantizer-slot assignments).  For every case the
real Q-layer is built, its weights are SET from a deterministic non-representable pattern, and its output
is compared with the stock tf.keras layer of the same geometry whose weights are q_i(w_i), where q_i are
the quantizer objects the layer itself reports through get_quantizers(), zipped with get_weights() in
order, followed by the layer's own activation.
"""
import itertools

import numpy as np

from mc import common

ID = "C11"
TITLE = "quantized layers equal their Keras layer run on pre-quantized weights"
TECHNIQUE = ("exhaustive enumeration of single-layer programs: layer class x deviation-bounded geometry lattice x "
             "quantizer-slot assignments, real Q-layer vs stock Keras layer on independently pre-quantized weights "
             "(differential, bit-exact for dense/conv/pooling)")
RULE = ("cases = (layer class, geometry within the deviation bound, quantizer per weight slot and activation slot); "
        "evaluations = output tensors compared (two inputs per case); non-trivial = every configured weight quantizer "
        "changed its tensor and the quantized output differs from the unquantized stock layer")
ASSUMPTIONS = [
    "tf_keras layers and TensorFlow kernels are trusted (they are the reference)",
    "channels_first convolutions are compared with the stock channels_last layer on the transposed input (the stock "
    "channels_first kernels do not run on this CPU; the Q layers do); pooling channels_last only; QGRU with reset_after=False; no transposed convolutions; depthwise strides equal in both directions; "
    "QSeparableConv1D without causal padding (these do not run for the stock layer either in this image)",
    "recurrent layers: state_quantizer=None, no dropout; comparison at relative 1e-5 (the stock cells use a "
    "mathematically equal but differently ordered op sequence); all other layers bit-exact",
    "average pooling follows the documented order AvgPool(x*area) * q(1/area); global pooling sum(x) * q(1/area)",
]

W_SLOTS = [None, "quantized_bits(4,0,1)", "quantized_bits(6,2,0,alpha=1)", "quantized_po2(4)", "ternary()",
           "binary(alpha='auto')"]
A_SLOTS = [None, "quantized_relu(4,1)", "quantized_tanh(4)", "relu"]
RNN_A_SLOTS = ["quantized_tanh(4)", "tanh", "quantized_relu(4,1)"]
P_SLOTS = [None, "quantized_bits(4,0,1)", "quantized_bits(8,0,1,alpha=1)"]

SPECS = {
    "QDense": dict(stock="Dense", w=["kernel_quantizer", "bias_quantizer"],
                   axes={"n_in": [4, 1, 7], "units": [3, 1, 2], "use_bias": [True, False]}),
    "QConv1D": dict(stock="Conv1D", w=["kernel_quantizer", "bias_quantizer"],
                    axes={"T": [6, 5], "cin": [3, 1], "filters": [2, 1], "k": [3, 1, 2], "strides": [1, 2],
                          "padding": ["valid", "same", "causal"], "dilation_rate": [1, 2], "use_bias": [True, False],
                          "data_format": ["channels_last", "channels_first"]}),
    "QConv2D": dict(stock="Conv2D", w=["kernel_quantizer", "bias_quantizer"],
                    axes={"H": [6, 5], "W": [6, 7], "cin": [4, 2], "filters": [2, 4], "kh": [3, 1, 2], "kw": [3, 1, 2],
                          "strides": [1, 2], "padding": ["valid", "same"], "dilation_rate": [1, 2], "groups": [1, 2],
                          "use_bias": [True, False], "data_format": ["channels_last", "channels_first"],
                          "mask": [None, "checker"]}),
    "QDepthwiseConv2D": dict(stock="DepthwiseConv2D", w=["depthwise_quantizer", "bias_quantizer"],
                             axes={"H": [6, 5], "W": [6, 7], "cin": [3, 1], "kh": [3, 1, 2], "kw": [3, 1, 2],
                                   "strides": [1, 2], "padding": ["valid", "same"], "depth_multiplier": [1, 2],
                                   "dilation_rate": [1, 2], "use_bias": [True, False],
                                   "data_format": ["channels_last", "channels_first"]}),
    "QSeparableConv1D": dict(stock="SeparableConv1D", w=["depthwise_quantizer", "pointwise_quantizer", "bias_quantizer"],
                             axes={"T": [6, 5], "cin": [3, 1], "filters": [2, 1], "k": [3, 1, 2], "strides": [1, 2],
                                   "padding": ["valid", "same"], "depth_multiplier": [1, 2], "use_bias": [True, False],
                                   "dilation_rate": [1, 2], "data_format": ["channels_last", "channels_first"]}),
    "QSeparableConv2D": dict(stock="SeparableConv2D", w=["depthwise_quantizer", "pointwise_quantizer", "bias_quantizer"],
                             axes={"H": [6, 5], "W": [6, 7], "cin": [3, 1], "filters": [2, 1], "kh": [3, 1, 2],
                                   "kw": [3, 1, 2], "strides": [1, 2], "padding": ["valid", "same"],
                                   "depth_multiplier": [1, 2], "dilation_rate": [1, 2], "use_bias": [True, False],
                                   "data_format": ["channels_last", "channels_first"]}),
    "QSimpleRNN": dict(stock="SimpleRNN", w=["kernel_quantizer", "recurrent_quantizer", "bias_quantizer"], rnn=True,
                       axes={"T": [4, 2], "n_in": [3, 1], "units": [2, 1, 3], "use_bias": [True, False],
                             "return_sequences": [False, True], "go_backwards": [False, True]}),
    "QLSTM": dict(stock="LSTM", w=["kernel_quantizer", "recurrent_quantizer", "bias_quantizer"], rnn=True,
                  axes={"T": [4, 2], "n_in": [3, 1], "units": [2, 1, 3], "use_bias": [True, False],
                        "return_sequences": [False, True], "implementation": [1, 2], "unit_forget_bias": [True, False]}),
    "QGRU": dict(stock="GRU", w=["kernel_quantizer", "recurrent_quantizer", "bias_quantizer"], rnn=True,
                 axes={"T": [4, 2], "n_in": [3, 1], "units": [2, 1, 3], "use_bias": [True, False],
                       "return_sequences": [False, True], "implementation": [1, 2]}),
    # the wrapper: one inner recurrent layer (both directions built from its configuration) or an explicit backward layer
    "QBidirectional": dict(stock="Bidirectional", w=["kernel_quantizer", "recurrent_quantizer", "bias_quantizer"], rnn=True, bidir=True,
                           axes={"inner": ["QLSTM", "QSimpleRNN", "QGRU"], "T": [4, 2], "n_in": [3, 1], "units": [2, 1],
                                 "use_bias": [True, False], "return_sequences": [False, True],
                                 "merge_mode": ["concat", "sum"], "backward": ["derived", "explicit"]}),
    "QAveragePooling2D": dict(stock="AveragePooling2D", w=["average_quantizer"], pool=True,
                              axes={"H": [6, 5], "W": [6, 7], "c": [3, 1], "pool": [2, 3, (2, 3), (3, 1)], "strides": [None, 1, 2],
                                    "padding": ["valid", "same"]}),
    "QGlobalAveragePooling2D": dict(stock="GlobalAveragePooling2D", w=["average_quantizer"], pool=True,
                                    axes={"H": [6, 5], "W": [6, 7], "c": [3, 1]}),
    "QScaleShift": dict(stock=None, w=["weight_quantizer", "bias_quantizer"],
                        axes={"rank": [2, 1, 3], "use_bias": [True, False]}),
}


def bound(tier):
  return {"geometry_deviation": 1 if tier == "quick" else 2, "quantized_slots": "<=2 of the weight/activation slots "
          "(quick); <=2 with geometry deviation 2 plus the full slot product with geometry deviation 1 (thorough)",
          "weight_slot_alphabet": W_SLOTS, "activation_slot_alphabet": A_SLOTS, "classes": list(SPECS)}


def worker_init():
  common.tf_init()


def _slot_assignments(spec, max_q):
  ws = P_SLOTS if spec.get("pool") else W_SLOTS
  acts = RNN_A_SLOTS if spec.get("rnn") else A_SLOTS
  slots = [ws] * len(spec["w"]) + [acts]
  out = []
  for combo in itertools.product(*slots):
    nq = sum(1 for i, c in enumerate(combo) if c != slots[i][0])
    if max_q is None or nq <= max_q:
      out.append(list(combo))
  return out


def enumerate_cases(tier, seed):
  out = []
  for cls, spec in SPECS.items():
    if tier == "quick":
      # recurrent layers are ~10x more expensive per execution: pairs of quantized slots only on the default geometry
      plans = [(1, 1), (0, 2)] if spec.get("rnn") else [(1, 2)]
    else:
      plans = [(2, 2), (1, None)]
    seen = set()
    geoms = [(g, max_q) for gdev, max_q in plans for g in common.dev_product(spec["axes"], gdev)]
    if tier == "quick" and "data_format" in spec["axes"]:
      # the data format interacts with every spatial parameter (axis bookkeeping): channels_first x each single other
      # deviation, with at most one quantized slot
      for g in common.dev_product(spec["axes"], 1):
        if g["data_format"] == "channels_last":
          geoms.append((dict(g, data_format="channels_first"), 1))
    for g, max_q in geoms:
      if True:
        if g.get("groups", 1) > 1 and (g["cin"] % g["groups"] or g["filters"] % g["groups"]):
          continue
        if g.get("dilation_rate", 1) > 1 and g.get("strides", 1) not in (1, None):
          continue
        for slots in _slot_assignments(spec, max_q):
          key = repr((sorted(g.items(), key=lambda kv: kv[0]), slots))
          if key in seen:
            continue
          seen.add(key)
          out.append(dict(cls=cls, g=g, slots=slots, _seed=seed))
  return out


def _input_shape(cls, g):
  if cls == "QDense":
    return (2, g["n_in"])
  if cls in ("QConv1D", "QSeparableConv1D"):
    return (2, g["T"], g["cin"])
  if cls in ("QConv2D", "QDepthwiseConv2D", "QSeparableConv2D"):
    return (2, g["H"], g["W"], g["cin"])
  if cls in ("QSimpleRNN", "QLSTM", "QGRU", "QBidirectional"):
    return (2, g["T"], g["n_in"])
  if cls in ("QAveragePooling2D", "QGlobalAveragePooling2D"):
    return (2, g["H"], g["W"], g["c"])
  return {1: (4,), 2: (3, 4), 3: (2, 3, 4)}[g["rank"]]


def _kwargs(cls, g):
  if cls == "QDense":
    return dict(units=g["units"], use_bias=g["use_bias"])
  if cls == "QConv1D":
    return dict(filters=g["filters"], kernel_size=g["k"], strides=g["strides"], padding=g["padding"],
                dilation_rate=g["dilation_rate"], use_bias=g["use_bias"])
  if cls == "QConv2D":
    return dict(filters=g["filters"], kernel_size=(g["kh"], g["kw"]), strides=g["strides"], padding=g["padding"],
                dilation_rate=g["dilation_rate"], groups=g["groups"], use_bias=g["use_bias"])
  if cls == "QDepthwiseConv2D":
    return dict(kernel_size=(g["kh"], g["kw"]), strides=g["strides"], padding=g["padding"],
                depth_multiplier=g["depth_multiplier"], dilation_rate=g["dilation_rate"], use_bias=g["use_bias"])
  if cls == "QSeparableConv1D":
    return dict(filters=g["filters"], kernel_size=g["k"], strides=g["strides"], padding=g["padding"],
                depth_multiplier=g["depth_multiplier"], use_bias=g["use_bias"], dilation_rate=g["dilation_rate"])
  if cls == "QSeparableConv2D":
    return dict(filters=g["filters"], kernel_size=(g["kh"], g["kw"]), strides=g["strides"], padding=g["padding"],
                depth_multiplier=g["depth_multiplier"], dilation_rate=g["dilation_rate"], use_bias=g["use_bias"])
  if cls == "QSimpleRNN":
    return dict(units=g["units"], use_bias=g["use_bias"], return_sequences=g["return_sequences"],
                go_backwards=g["go_backwards"])
  if cls == "QLSTM":
    return dict(units=g["units"], use_bias=g["use_bias"], return_sequences=g["return_sequences"],
                implementation=g["implementation"], unit_forget_bias=g["unit_forget_bias"])
  if cls == "QGRU":
    return dict(units=g["units"], use_bias=g["use_bias"], return_sequences=g["return_sequences"],
                implementation=g["implementation"], reset_after=False)
  if cls == "QAveragePooling2D":
    return dict(pool_size=g["pool"], strides=g["strides"], padding=g["padding"])
  if cls == "QGlobalAveragePooling2D":
    return {}
  return dict(use_bias=g["use_bias"])


def set_pattern_weights(layer, seed):
  ws = layer.get_weights()
  new = []
  for i, w in enumerate(ws):
    pat = common.tensor(w.shape, "grid7", seed + i) * np.float32(0.9 if w.ndim > 1 else 0.45)
    if w.ndim == 1 or w.shape == (1, 1):
      pat = pat + np.float32(0.11 * (i + 1))
    new.append(pat.astype(np.float32))
  layer.set_weights(new)
  return new


def _to_cf(x):
  return np.ascontiguousarray(np.transpose(x, [0, x.ndim - 1] + list(range(1, x.ndim - 1))))


def _from_cf(y):
  return np.ascontiguousarray(np.transpose(y, [0] + list(range(2, y.ndim)) + [1])) if y.ndim > 2 else y


def _build_bidir(tf, qkeras, g, qkw, act, quantized):
  """(layer, stock factory inputs): the QBidirectional under test."""
  inner = g["inner"]
  extra = dict(reset_after=False) if inner == "QGRU" else {}
  kw = dict(units=g["units"], use_bias=g["use_bias"], return_sequences=g["return_sequences"], **extra)
  fw = getattr(qkeras, inner)(activation=act, name="fw", **kw, **qkw)
  bw = getattr(qkeras, inner)(activation=act, name="bw", go_backwards=True, **kw, **qkw) if g["backward"] == "explicit" else None
  return qkeras.QBidirectional(fw, backward_layer=bw, merge_mode=g["merge_mode"], name="q"), kw


def run_case(case):
  tf = common.tf_init()
  common.reset_keras()
  import qkeras  # pylint: disable=import-outside-toplevel
  cls, g, slots = case["cls"], case["g"], case["slots"]
  spec = SPECS[cls]
  viol = []
  L = tf.keras.layers

  def bad(clause, what, **d):
    tag = ",".join("%s" % n for n, s in zip(spec["w"] + ["activation"], slots) if s is not None) or "none"
    if len(viol) < 4:
      viol.append({"key": "%s:%s" % (cls, clause), "what": "%s %s (%s): %s" % (cls, clause, tag, what),
                   "detail": dict(case=case, **d)})
  g = dict(g)
  cf = g.pop("data_format", "channels_last") == "channels_first"
  # tap mask of QConv2D (documented: applied to the QUANTIZED kernel): checker over (kh, kw), tap (0, 0) kept
  mask = None
  if g.pop("mask", None):
    mask = np.fromfunction(lambda i, j: ((i + j) % 2 == 0), (g["kh"], g["kw"])).astype(np.float32)
  qkw = dict(zip(spec["w"], slots[:-1]))
  act = slots[-1]
  shape = _input_shape(cls, g)
  xs = [common.tensor(shape, "ramp", case["_seed"]), common.tensor(shape, "signs", case["_seed"])]
  if spec.get("bidir"):
    qlayer, kw = _build_bidir(tf, qkeras, g, qkw, act, True)
  else:
    kw = _kwargs(cls, g)
    qlayer = getattr(qkeras, cls)(activation=act, name="q", **kw, **qkw, **({"data_format": "channels_first"} if cf else {}),
                                  **({"mask": mask} if mask is not None else {}))

  def run_q(x):
    y = np.asarray(qlayer(tf.constant(_to_cf(x) if cf else x)), dtype=np.float32)
    return _from_cf(y) if cf else y
  run_q(xs[0])
  set_pattern_weights(qlayer, case["_seed"])
  weights = qlayer.get_weights()
  if spec.get("bidir"):
    # reported layout: forward [kernel, recurrent, bias, state] then backward [kernel, recurrent, bias, state]; the
    # weights are forward [kernel, recurrent(, bias)] then backward: each weight's quantizer is what the clause is about
    rep = list(qlayer.get_quantizers())
    nf = len(qlayer.forward_layer.get_weights())
    nb = len(qlayer.backward_layer.get_weights())
    if len(rep) != 8:
      bad("get_quantizers", "reports %d quantizers, expected forward and backward [kernel, recurrent, bias, state]" % len(rep))
      rep = (rep + [None] * 8)[:8]
    quants = rep[:nf] + rep[4:4 + nb]
  else:
    quants = list(qlayer.get_quantizers())
    if len(quants) < len(weights):
      bad("get_quantizers", "reports %d quantizers for %d weights" % (len(quants), len(weights)))
      quants = quants + [None] * (len(weights) - len(quants))

  def evaluate(xs_in):
    """Outputs of the Q layer, of the stock layer on weights pre-quantized by the REPORTED quantizer objects, and of the
    stock layer on the raw weights, for the current state of those objects."""
    ys = [run_q(x) for x in xs_in]
    wq, changed = [], []
    for q, w in zip(quants, weights):
      if q is None:
        wq.append(w)
      else:
        v = np.asarray(q(tf.constant(w)), dtype=np.float32)
        wq.append(v)
        changed.append(bool(np.any(v != w)))
    if spec.get("bidir"):
      stock_cls = getattr(L, g["inner"][1:])
      extra = {}

      def mk(name, part, **more):
        e = dict(extra)
        if g["inner"] in ("QLSTM", "QGRU"):
          e["recurrent_activation"] = part.cell.recurrent_activation
        return stock_cls(activation=part.cell.activation, name=name, **kw, **e, **more)

      def stock(name, ws):
        # Bidirectional by its definition (the stock wrapper re-creates its layers from their configuration, which would
        # replace the cell's activation OBJECTS by whatever their names deserialize to): forward rnn, backward rnn with
        # go_backwards=True whose sequence output is reversed in time, merged
        fwd = mk(name + "_fw", qlayer.forward_layer)
        bwd = mk(name + "_bw", qlayer.backward_layer, go_backwards=True)
        fwd(tf.constant(xs_in[0]))
        bwd(tf.constant(xs_in[0]))
        nf_ = len(fwd.get_weights())
        fwd.set_weights(ws[:nf_])
        bwd.set_weights(ws[nf_:])

        def call(x):
          a_, b_ = fwd(tf.constant(x)), bwd(tf.constant(x))
          if g["return_sequences"]:
            b_ = tf.reverse(b_, axis=[1])
          return np.asarray(tf.concat([a_, b_], axis=-1) if g["merge_mode"] == "concat" else a_ + b_, dtype=np.float32)
        return call
      ref, plain = stock("ref", wq), stock("plain", weights)
      refs = [ref(x) for x in xs_in]
      plains = [plain(x) for x in xs_in]
      return ys, refs, plains, changed
    activation = qlayer.cell.activation if spec.get("rnn") else qlayer.activation
    if spec.get("rnn"):
      extra = {}
      if cls in ("QLSTM", "QGRU"):
        extra["recurrent_activation"] = qlayer.cell.recurrent_activation
      ref = getattr(L, spec["stock"])(activation=activation, name="ref", **kw, **extra)
      ref(tf.constant(xs_in[0]))
      ref.set_weights(wq)
      plain = getattr(L, spec["stock"])(activation=activation, name="plain", **kw, **extra)
      plain(tf.constant(xs_in[0]))
      plain.set_weights(weights)
      refs = [np.asarray(ref(tf.constant(x)), dtype=np.float32) for x in xs_in]
      plains = [np.asarray(plain(tf.constant(x)), dtype=np.float32) for x in xs_in]
    elif spec.get("pool"):
      q = quants[0]
      refs, plains = [], []
      for x in xs_in:
        stock = getattr(L, spec["stock"])(**kw)
        if cls == "QAveragePooling2D":
          area = float(np.prod(g["pool"]) if not isinstance(g["pool"], int) else g["pool"] * g["pool"])
          if q is not None:
            qf = np.float32(np.asarray(q(1.0 / area), dtype=np.float32))
            r = np.asarray(stock(tf.constant(x * np.float32(area))), dtype=np.float32) * qf
          else:
            r = np.asarray(stock(tf.constant(x)), dtype=np.float32)
        else:
          area = float(x.shape[1] * x.shape[2])
          if q is not None:
            qf = np.asarray(q(1.0 / area), dtype=np.float32)
            r = np.asarray(tf.reduce_sum(tf.constant(x), axis=[1, 2]) * qf, dtype=np.float32)
          else:
            r = np.asarray(stock(tf.constant(x)), dtype=np.float32)
        p = np.asarray(stock(tf.constant(x)), dtype=np.float32)
        if activation is not None:
          r = np.asarray(activation(tf.constant(r)), dtype=np.float32)
          p = np.asarray(activation(tf.constant(p)), dtype=np.float32)
        refs.append(r)
        plains.append(p)
        if q is not None:
          changed.append(bool(np.asarray(q(1.0 / area), dtype=np.float32) != np.float32(1.0 / area)))
    elif cls == "QScaleShift":
      refs, plains = [], []
      for x in xs_in:
        r = tf.math.multiply(tf.constant(x), tf.constant(wq[0]))
        p = tf.math.multiply(tf.constant(x), tf.constant(weights[0]))
        if g["use_bias"]:
          r = tf.constant(wq[1]) + r
          p = tf.constant(weights[1]) + p
        if activation is not None:
          r, p = activation(r), activation(p)
        refs.append(np.asarray(r, dtype=np.float32))
        plains.append(np.asarray(p, dtype=np.float32))
    else:
      wq_, weights_ = list(wq), list(weights)
      if mask is not None:
        # the masked layer is the stock layer on q(kernel) * mask (0/1 factors: exact)
        wq_[0] = wq_[0] * mask.reshape(mask.shape + (1, 1))
        weights_[0] = weights_[0] * mask.reshape(mask.shape + (1, 1))
      ref = getattr(L, spec["stock"])(activation=activation, name="ref", **kw)
      ref(tf.constant(xs_in[0]))
      ref.set_weights(wq_)
      plain = getattr(L, spec["stock"])(activation=activation, name="plain", **kw)
      plain(tf.constant(xs_in[0]))
      plain.set_weights(weights_)
      refs = [np.asarray(ref(tf.constant(x)), dtype=np.float32) for x in xs_in]
      plains = [np.asarray(plain(tf.constant(x)), dtype=np.float32) for x in xs_in]
    return ys, refs, plains, changed

  rtol = 1e-5 if spec.get("rnn") else 0.0
  if spec.get("pool"):
    # same layer OBJECT called again on a different spatial extent (pooling layers have no weights, so this is
    # legal): nothing computed for the first geometry may survive into the second call
    shape2 = (2, g["H"] + 2, g["W"] + 1, g["c"])
    xs = xs + [common.tensor(shape2, "ramp", case["_seed"])]
  differs = False
  all_changed = []
  digests = []
  phases = ["as-configured", "reported-quantizers-reconfigured"]
  for phase in phases:
    if phase == "reported-quantizers-reconfigured":
      # the reported quantizer objects ARE the applied ones: switching their quantization noise off through the reported
      # handles (an attribute the scheduler callback drives on exactly these handles) must switch it off in the layer
      handles = [q for q in quants if q is not None and hasattr(q, "update_qnoise_factor") and hasattr(q, "qnoise_factor")]
      if not handles or viol:
        break
      for q in handles:
        q.update_qnoise_factor(0.0)
    ys, refs, plains, changed = evaluate(xs)
    digests.append(common.digest(*ys))
    if phase == "as-configured":
      all_changed = changed
    for x, y, r, p in zip(xs, ys, refs, plains):
      if y.shape != r.shape:
        bad("shape", "output shape %r, stock layer %r" % (y.shape, r.shape))
        continue
      ok = np.allclose(y, r, rtol=rtol, atol=1e-6) if rtol else np.array_equal(y, r)
      if not ok:
        i = np.unravel_index(int(np.argmax(np.abs(y.astype(np.float64) - r))), y.shape)
        nq = "no-quantizers" if all(s is None for s in slots) else "quantized"
        if phase != "as-configured":
          nq = "reported-handles"
        bad("drop-in:" + nq, "[%s] output %r, stock layer on weights pre-quantized by the reported quantizers gives %r (max abs diff "
            "%g); geometry %r" % (phase, float(y[i]), float(r[i]), float(np.max(np.abs(y.astype(np.float64) - r))), case["g"]))
        break
      if phase == "as-configured" and np.any(y != p):
        differs = True
  nontrivial = int(all(all_changed) and len(all_changed) > 0 and differs)
  return {"evals": len(xs) * len(digests), "transitions": 3 * len(xs) * max(1, len(digests)), "nontrivial": nontrivial,
          "state": "%s|%r|%r" % (cls, sorted(case["g"].items(), key=lambda kv: kv[0]), slots),
          "digest": common.digest(*digests), "violations": viol, "traces": len(xs) * len(digests),
          "sample": {"cls": cls, "geometry": case["g"], "slots": dict(zip(spec["w"] + ["activation"], slots)),
                     "input_shape": list(shape), "phases": len(digests)}}

# (appended: sub-lattices added after the seeded waves; kept out of the original RULE text for readability)
RULE = RULE + '; plus: channels_first convolutions (compared through transposition), each combined with every single other geometry deviation; QBidirectional (derived / explicit backward layer); every case is executed a second time after the noise of the REPORTED quantizer objects was switched off through the reported handles'
