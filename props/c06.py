"""C06 - quantizers stay trainable: gradients are those of the straight-through surrogate.

Kernel L.  For every configuration the real quantizer is run under tf.GradientTape on its breakpoint
alphabet (minus a small neighbourhood of the surrogate's own kinks) twice: d/dx sum(q(x)) and
d/dx sum(w*q(x)) for a fixed non-constant upstream vector w (diagonal Jacobian).  The expected
derivative is recomputed from the constructor arguments in float64.
"""
import numpy as np

from mc import common
from mc import fixedpoint as fp
from props import c03

ID = "C06"
TITLE = "gradients are those of the straight-through surrogate"
TECHNIQUE = ("exhaustive enumeration of configuration lattice x breakpoint / tensor alphabet under "
             "tf.GradientTape on the real quantizers against a float64 surrogate-derivative reference")
RULE = ("cases = every configuration (class x format options x use_ste x qnoise_factor x slope / upper bound / "
        "alpha mode); each is differentiated on its alphabet with two upstream vectors; evaluations = "
        "element-level gradient decisions; non-trivial = the alphabet contained both unclipped points with a "
        "non-zero expected derivative and points where the forward value differs from the input")
ASSUMPTIONS = [
    "TensorFlow autodiff is trusted; eager mode",
    "points within 1e-4 (relative) of a kink of the surrogate itself (0 for ReLU, clip edges, upper bounds, the "
    "saturation breakpoints of tanh/sigmoid) are removed from the alphabet: the derivative is ambiguous there",
    "bits in {1..4, 8} for fixed point, {2,3,4,8} for power-of-two; tensors up to rank 3 for data-dependent scales",
    "real tanh/sigmoid derivatives are compared at relative 1e-4 (float32 transcendental), all others exactly",
]

FS = (1.0, 0.5, 0.0)


def bound(tier):
  return {"fixed_point_bits": [1, 2, 3, 4, 8] if tier == "thorough" else [1, 2, 3, 4],
          "qnoise_factor": list(FS), "use_ste": [True, False], "lattice": "full product per family"}


def worker_init():
  common.tf_init()


def enumerate_cases(tier, seed):
  out = []
  bitset = (1, 2, 3, 4, 8) if tier == "thorough" else (1, 2, 3, 4)
  for cfg in fp.configs(8):
    if cfg["bits"] not in bitset:
      continue
    cls = cfg["cls"]
    if cls in ("quantized_tanh", "quantized_sigmoid"):
      out.append(dict(fam="fixed", q=cfg, f=1.0, ste=True))
      continue
    for f in FS:
      for ste in ((True, False) if cls != "quantized_linear" else (True,)):
        out.append(dict(fam="fixed", q=cfg, f=f, ste=ste))
    if cls == "quantized_relu":
      for rub in (None, 1.5):
        for ste in (True, False):
          out.append(dict(fam="fixed", q=cfg, f=1.0, ste=ste, iqc=False, rub=rub))
  for c in list(out):
    if c["fam"] == "fixed" and c["q"]["bits"] in (2, 4) and c["f"] == 1.0 and "iqc" not in c:
      out.append(dict(c, stoch=True))
  for cfg in c03.enumerate_cases(tier, seed):
    if cfg["bits"] not in (2, 3, 4, 8):
      continue
    for f in FS:
      for ste in (True, False):
        out.append(dict(fam="po2", q=cfg, f=f, ste=ste))
  for rank in (1, 2, 3):
    for alpha in (None, 1.0, 0.5, 2.0, "auto", "auto_po2"):
      for u01 in (False, True):
        out.append(dict(fam="bt", cls="binary", alpha=alpha, use_01=u01, rank=rank))
      for thr in ((None, 0.5) if not isinstance(alpha, str) else (None,)):
        out.append(dict(fam="bt", cls="ternary", alpha=alpha, threshold=thr, rank=rank))
    for cls in ("quantized_bits", "quantized_linear"):
      for alpha in ("auto", "auto_po2"):
        for bits in (2, 4, 8):
          for f in FS:
            for ste in ((True, False) if cls == "quantized_bits" else (True,)):
              out.append(dict(fam="auto", cls=cls, alpha=alpha, bits=bits, f=f, ste=ste, rank=rank))
              if cls == "quantized_bits":
                # integer bits and a frozen (post-training) scale: neither changes the surrogate, the derivative stays
                # the identity's (the normalisation by 2^integer inside the call must be undone on every path)
                for integer, pts in ((2, False), (0, True), (2, True), (1, True)):
                  out.append(dict(fam="auto", cls=cls, alpha=alpha, bits=bits, f=f, ste=ste, rank=rank, integer=integer, pts=pts))
  for c in out:
    c["_seed"] = seed
  return out


def _away(x64, kinks, rel=1e-4):
  keep = np.ones(x64.shape, dtype=bool)
  for k in kinks:
    keep &= np.abs(x64 - k) > rel * max(abs(k), 1e-30) if k != 0 else np.abs(x64) > 1e-30
  return keep


def _fixed(case):
  """Returns quantizer, alphabet, expected gradient, validity mask, tolerance, forward-code checker."""
  cfg = case["q"]
  f = fp.fmt(cfg)
  cls = cfg["cls"]
  extra = {}
  if cls in ("quantized_bits", "quantized_relu"):
    extra = dict(qnoise_factor=case["f"], use_ste=case["ste"])
  elif cls == "quantized_linear":
    extra = dict(qnoise_factor=case["f"])
  if "iqc" in case:
    extra.update(is_quantized_clip=False, relu_upper_bound=case["rub"])
  if case.get("stoch"):
    extra["use_stochastic_rounding"] = True     # learning phase 0: deterministic forward, the same straight-through gradient
  q = fp.make(cfg, **extra)
  x = fp.alphabet(cfg)
  x64 = x.astype(np.float64)
  qf, ste = case["f"], case["ste"]
  tol = 0.0
  if cls == "quantized_bits":
    g = np.ones_like(x64) if ste else np.full_like(x64, 1.0 - qf)
    keep = np.ones(x64.shape, dtype=bool)
  elif cls == "quantized_linear":
    if f["sign"]:
      qs = 2 * f["allowed"][1]
      a, b = -0.5 * qs, 0.5 * qs
    else:
      a, b = f["lo"] * f["step"], f["hi"] * f["step"]
    inside = (x64 > a) & (x64 < b)
    g = np.where(inside, 1.0, 1.0 - qf)
    keep = _away(x64, [a, b])
  elif cls == "quantized_relu":
    slope = cfg["slope"]
    if "iqc" not in case:
      ub = 2.0 ** cfg["integer"] - f["step"]
    else:
      ub = case["rub"]
    g = np.where(x64 < 0, slope, 1.0)
    if ub is not None:
      g = np.where(x64 > ub, 0.0, g)
    if not ste:
      g = g * (1.0 - qf)
    keep = _away(x64, [0.0] + ([ub] if ub is not None else []))
  else:
    mode = cfg["mode"]
    m = 1.0 / f["step"]
    p = fp.surrogate(f, x64)
    if cls == "quantized_tanh":
      if mode == "hard":
        dp = np.where(np.abs(x64) < 1, 1.0, 0.0); kinks = [-1.0, 1.0]
      elif mode == "smooth":
        dp = np.where(np.abs(x64) < 8.0 / 3, 0.375, 0.0); kinks = [-8.0 / 3, 8.0 / 3]
      else:
        dp = (1.0 - p * p) if mode == "real_flag" else (1.0 - p * p) / 2.0; kinks = []; tol = 1e-4
    else:
      if mode == "hard":
        dp = np.where(np.abs(x64) < 1, 0.5, 0.0); kinks = [-1.0, 1.0]
      elif mode == "smooth":
        dp = np.where(np.abs(x64) < 8.0 / 3, 0.1875, 0.0); kinks = [-8.0 / 3, 8.0 / 3]
      else:
        dp = p * (1.0 - p); kinks = []; tol = 1e-4
    t = p * m
    inside = (np.round(t) >= f["lo"]) & (np.round(t) <= f["hi"])
    g = np.where(inside, dp, 0.0)
    keep = _away(x64, kinks) & (np.abs(t - (f["hi"] + 0.5)) > 1e-3) & (np.abs(t - (f["lo"] - 0.5)) > 1e-3)
    if tol:   # real surrogates: stay clear of the region where float32 sigmoid saturates
      keep &= np.abs(x64) < 15

  def is_code(y):
    if f["sign"]:
      return np.isin(y.astype(np.float64), np.asarray(f["allowed"]))
    c = y.astype(np.float64) / f["step"]
    return (c == np.round(c)) & (c >= f["lo"]) & (c <= f["hi"])
  fwd_codes = is_code if (case["f"] == 1.0 and not ("iqc" in case and case["rub"])) else None
  unclipped = keep & (g != 0)
  return q, x, g, keep, tol, fwd_codes, unclipped


def _po2(case):
  cfg = case["q"]
  q = c03.make(cfg, qnoise_factor=case["f"], use_ste=case["ste"])
  x = c03.alphabet(cfg)
  x64 = x.astype(np.float64)
  v0, _ = c03.magnitude(cfg, x64)
  lo0, _ = c03.admissible_exp(cfg, v0)
  hz = np.abs(x64) < 2.0 ** 22 * 2.0 ** lo0     # float32 horizon of x + (q - x), see C03
  x, x64 = x[hz], x64[hz]
  if cfg["cls"] == "quantized_po2":
    g = np.ones_like(x64)
    keep = np.ones(x64.shape, dtype=bool)
  else:
    g = np.where(x64 < 0, cfg["slope"], 1.0)
    kinks = [0.0]
    if cfg["max_value"] is not None:
      g = np.where(x64 > cfg["max_value"], 0.0, g)
      kinks.append(cfg["max_value"])
    keep = _away(x64, kinks)
  if not case["ste"]:
    g = g * (1.0 - case["f"])

  def is_code(y):
    mant, _ = np.frexp(np.abs(y.astype(np.float64)))
    return mant == 0.5
  return q, x, g, keep, 0.0, (is_code if case["f"] == 1.0 else None), keep & (g != 0)


def _tensor_alphabet(rank, seed):
  shape = common.SHAPES_A[rank]
  return [common.tensor(shape, p, seed) for p in ("grid7", "ramp", "signs", "zero_channel", "huge", "tiny")]


def run_case(case):
  tf = common.tf_init()
  common.reset_keras()
  from qkeras import quantizers as Q  # pylint: disable=import-outside-toplevel
  viol = []
  name = case["q"]["cls"] if "q" in case else case["cls"]

  def bad(clause, what, tag="", **detail):
    if len(viol) < 8:
      viol.append({"key": "%s:%s%s" % (name, clause, (":" + tag) if tag else ""),
                   "what": "%s %s: %s" % (name, clause, what), "detail": dict(case=case, **detail)})

  def tape(q, x):
    xt = tf.constant(x)
    w = (1.0 + (np.arange(x.size) % 5) * 0.25).astype(np.float32).reshape(x.shape)
    with tf.GradientTape(persistent=True) as t:
      t.watch(xt)
      y = q(xt)
      s1 = tf.reduce_sum(y)
      s2 = tf.reduce_sum(y * tf.constant(w))
    g1, g2 = t.gradient(s1, xt), t.gradient(s2, xt)
    z = np.zeros(x.shape, dtype=np.float32)
    return (np.asarray(y, dtype=np.float32), z if g1 is None else np.asarray(g1, dtype=np.float32),
            z if g2 is None else np.asarray(g2, dtype=np.float32), w, g1 is None)

  evals = 0
  digests = []
  nontrivial = 0
  runs = []
  if case["fam"] == "fixed":
    q, x, g, keep, tol, fwd, unclipped = _fixed(case)
    runs.append((q, x, g, keep, tol, fwd, unclipped, ""))
  elif case["fam"] == "po2":
    q, x, g, keep, tol, fwd, unclipped = _po2(case)
    runs.append((q, x, g, keep, tol, fwd, unclipped, ""))
  elif case["fam"] == "bt":
    for x in _tensor_alphabet(case["rank"], case["_seed"]):
      if case["cls"] == "binary":
        q = Q.binary(use_01=case["use_01"], alpha=case["alpha"])
      else:
        q = Q.ternary(alpha=case["alpha"], threshold=case["threshold"])
      x64 = x.astype(np.float64)
      if case["alpha"] is None:
        g = 1.0 - np.tanh(x64) ** 2
        tol = 1e-4
      else:
        g = np.ones_like(x64)
        tol = 0.0
      keep = np.ones(x.shape, dtype=bool)
      runs.append((q, x, g, keep, tol, None, keep & (g > 1e-3), "alpha=None" if case["alpha"] is None else
                   ("auto" if isinstance(case["alpha"], str) else "const")))
  else:
    for x in _tensor_alphabet(case["rank"], case["_seed"]):
      x64 = x.astype(np.float64)
      if case["cls"] == "quantized_bits":
        q = Q.quantized_bits(bits=case["bits"], integer=case.get("integer", 0), alpha=case["alpha"], qnoise_factor=case["f"],
                             use_ste=case["ste"], post_training_scale=0.75 if case.get("pts") else None)
        g = np.ones_like(x64) if case["ste"] else np.full_like(x64, 1.0 - case["f"])
        keep = np.ones(x.shape, dtype=bool)
      else:
        q = Q.quantized_linear(bits=case["bits"], alpha=case["alpha"], qnoise_factor=case["f"])
        # the clip range follows the data: decide inside/outside from the scale the call records
        q(tf.constant(x))
        qs = np.broadcast_to(np.asarray(q.quantization_scale, dtype=np.float64), x.shape)
        top = (2 ** (case["bits"] - 1) - 1) * qs
        inside = np.abs(x64) < top
        g = np.where(inside, 1.0, 1.0 - case["f"])
        keep = np.abs(np.abs(x64) - top) > 1e-4 * np.maximum(top, 1e-30)
      runs.append((q, x, g, keep, 0.0, None, keep & (g != 0), case["alpha"] + (":frozen" if case.get("pts") else "")))

  for q, x, g, keep, tol, fwd, unclipped, tag in runs:
    y, g1, g2, w, nograd = tape(q, x)
    y_plain = np.asarray(q(tf.constant(x)), dtype=np.float32)
    digests.append(common.digest(y, g1, g2))
    evals += 2 * int(keep.sum()) + x.size
    if not np.array_equal(y, y_plain):
      bad("forward-under-tape", "forward value differs with / without a tape", tag)
    if not (np.all(np.isfinite(g1)) and np.all(np.isfinite(g2))):
      i = int(np.flatnonzero(~np.isfinite(g1.reshape(-1)) | ~np.isfinite(g2.reshape(-1)))[0])
      bad("finite", "non-finite gradient at x=%r" % float(x.reshape(-1)[i]), tag, x=float(x.reshape(-1)[i]))
      continue
    if fwd is not None:
      ok = fwd(y)
      if not ok.all():
        i = int(np.flatnonzero(~ok.reshape(-1))[0])
        bad("forward-is-quantized", "forward value %r at x=%r is not a code" % (
            float(y.reshape(-1)[i]), float(x.reshape(-1)[i])), tag)
    d1 = np.abs(g1.astype(np.float64) - g)
    # transcendental surrogates (tol > 0): 1 - tanh(x)^2 is formed in float32 from a tanh that is a few ulps off, so the
    # derivative carries an ABSOLUTE error of a few ulps of 1 however small it is (seen at 8 bits, x = -6.2: 1.56e-5
    # against 1.53e-5)
    lim = tol * np.maximum(np.abs(g), 1e-3) + (6e-7 if tol else 1e-7)
    wrong = keep & (d1 > lim)
    if wrong.any():
      i = int(np.flatnonzero(wrong.reshape(-1))[0])
      bad("gradient", "d q/dx at x=%r is %r, surrogate derivative %r" % (
          float(x.reshape(-1)[i]), float(g1.reshape(-1)[i]), float(np.asarray(g).reshape(-1)[i])), tag,
          x=float(x.reshape(-1)[i]), got=float(g1.reshape(-1)[i]), want=float(np.asarray(g).reshape(-1)[i]))
    # points at a kink of the surrogate were left out of `keep` because two derivative values are defensible there
    # (the one of either adjacent region); any OTHER value is still a violation
    kink = ~keep
    if kink.any():
      gf = np.asarray(np.broadcast_to(g, x.shape), dtype=np.float64).reshape(-1)
      g1f = g1.astype(np.float64).reshape(-1)
      # any value between the smallest and the largest region derivative is a sub-gradient at a kink
      lo_h, hi_h = min(gf.min(), 0.0), max(gf.max(), 0.0)
      if tag.split(":")[0] in ("auto", "auto_po2") and name == "quantized_linear":
        lo_h, hi_h = 0.0, 1.0     # per-element scales put every element on its own clip edge: regions {1, 1-f}
      okk = (g1f >= lo_h - 1e-6 - tol) & (g1f <= hi_h + 1e-6 + tol)
      badk = kink.reshape(-1) & ~okk
      evals += int(kink.sum())
      if badk.any():
        i = int(np.flatnonzero(badk)[0])
        bad("gradient-at-kink", "d q/dx at x=%r is %r, which lies outside the range [%r, %r] of the surrogate's derivatives" % (
            float(x.reshape(-1)[i]), float(g1f[i]), lo_h, hi_h), tag,
            x=float(x.reshape(-1)[i]), got=float(g1f[i]))
    d2 = np.abs(g2.astype(np.float64) - g * w)
    wrong2 = keep & (d2 > lim * w + 1e-7)
    if wrong2.any() and not wrong.any():
      i = int(np.flatnonzero(wrong2.reshape(-1))[0])
      bad("diagonal-jacobian", "weighted gradient at x=%r is %r, expected %r" % (
          float(x.reshape(-1)[i]), float(g2.reshape(-1)[i]), float((g * w).reshape(-1)[i])), tag)
    if unclipped.any() and not np.any(g1[unclipped] != 0):
      bad("not-identically-zero", "gradient is identically zero on the unclipped range", tag)
    if unclipped.any() and np.any(y != x):
      nontrivial = 1
  st = dict(case)
  return {"evals": evals, "transitions": 3 * len(runs), "nontrivial": nontrivial,
          "state": repr(sorted(st.items(), key=lambda kv: kv[0])), "digest": common.digest(*digests),
          "violations": viol, "traces": len(runs),
          "sample": {"case": case, "alphabet_sizes": [int(r[1].size) for r in runs]}}

# (appended: sub-lattices added after the seeded waves; kept out of the original RULE text for readability)
RULE = RULE + '; plus: data-dependent scales with integer bits and a frozen (post-training) scale'
RULE = RULE + '; fixed-point configurations with use_stochastic_rounding=True differentiated at learning phase 0'
