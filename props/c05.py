"""C05 - auto-scaled fixed point: output = in-range integer codes times the recorded scale.

Kernel L over (configuration x rank/shape x tensor alphabet).  Classes: quantized_bits and
quantized_linear with alpha in {'auto','auto_po2'} (and a frozen post_training_scale).  The
reference model recomputes group membership, the 'auto' scale (2*max/levels), the top-code /
no-clipping clause and the power-of-two exponent bounds independently, in float64.
"""
import numpy as np

from mc import common

ID = "C05"
TITLE = "auto-scaled fixed-point output = in-range integer codes times the recorded scale"
TECHNIQUE = ("exhaustive enumeration of a deviation-bounded option lattice x ranks x tensor-pattern alphabet "
             "on the real quantizers; multiplicative code/scale oracle, independent group model, "
             "power-of-two equivariance by re-execution on 2^k*x")
RULE = ("cases = every (class, bits, integer, alpha, scale_axis, elements_per_scale, po2 exponent bounds, "
        "post_training_scale, keep_negative/symmetric, rank, shape family) within the deviation bound; each "
        "runs the real quantizer on 8 value patterns plus 6 power-of-two rescalings of two patterns; "
        "evaluations = element/group decisions; non-trivial = at least two groups got different scales and "
        "at least one element was rounded to a different value")
ASSUMPTIONS = [
    "TensorFlow eager kernels and tf_keras are trusted; channels_last",
    "bits 2..8, integer 0..3, tensors of rank 1..4 with <= 128 elements",
    "y == scale*step*z decided multiplicatively within 1 float32 ulp of max(|x|,|y|) for 'auto' (exact for power-of-two scales)",
    "equivariance is checked for |x| >= 1e-3 on patterns grid7 and ramp, without exponent bounds / frozen scales",
    "rank-1 tensors: quantized_bits('auto') uses one scale for the whole vector, 'auto_po2' and quantized_linear one per "
    "element (documented library behaviour); only positivity / constancy inside those groups is judged there",
]

EQUIV_PATTERNS = ("grid7", "ramp")


def bound(tier):
  return {"lattice": "deviation<=%d from defaults per (class, rank, family)" % (2 if tier == "quick" else 3),
          "ranks": [1, 2, 3, 4], "patterns": common.PATTERNS, "equivariance_k": [-3, -2, -1, 1, 2, 3]}


def worker_init():
  common.tf_init()


def _axes_for_rank(r):
  opts = [None] + list(range(r))
  if r >= 2:
    opts.append([0, 1])
  if r >= 3:
    opts.append([r - 2, r - 1])
  return opts


def _valid(c, shape):
  if c["cls"] == "quantized_linear":
    if c["eps"] is not None or c["min_po2"] is not None or c["max_po2"] is not None or c["pts"]:
      return False
    if isinstance(c["scale_axis"], list):
      return False
  else:
    if c["keep_negative"] is not True or c["symmetric"] != 1:
      return False
  if c["alpha"] != "auto_po2" and (c["min_po2"] is not None or c["max_po2"] is not None or c["eps"] is not None):
    return False
  if c["min_po2"] is not None and c["max_po2"] is not None and c["min_po2"] > c["max_po2"]:
    return False
  if c["integer"] > c["bits"] - 1:
    return False
  if len(shape) == 1 and (c["scale_axis"] is not None or c["eps"] is not None):
    return False
  if c["pts"] and (c["scale_axis"] is not None or c["eps"] is not None):
    return False
  if c["eps"] is not None:
    sa = c["scale_axis"]
    if sa is None:
      return False
    if isinstance(c["eps"], list) and not (isinstance(sa, list) and len(sa) == len(c["eps"])):
      return False
    axes = sa if isinstance(sa, list) else [sa]
    es = c["eps"] if isinstance(c["eps"], list) else [c["eps"]] * len(axes)
    if any(shape[a] % e for a, e in zip(axes, es)):
      return False
  return True


def enumerate_cases(tier, seed):
  k = 2 if tier == "quick" else 3
  out = []
  for rank in (1, 2, 3, 4):
    for fam, shapes in (("A", common.SHAPES_A), ("B", common.SHAPES_B)):
      shape = shapes[rank]
      for cls in ("quantized_bits", "quantized_linear"):
        axes = {
            "alpha": ["auto_po2", "auto"],
            "bits": [4, 2, 3, 5, 6, 7, 8],
            "integer": [0, 1, 2, 3],
            "scale_axis": _axes_for_rank(rank),
            "eps": [None, 1, 2, [2, 2]],
            "min_po2": [None, -2, 0, 2],
            "max_po2": [None, -2, 0, 2],
            "pts": [False, True],
            "keep_negative": [True, False],
            "symmetric": [1, 0],
        }
        for c in common.dev_product(axes, k, lambda c, s=shape, cl=cls: _valid(dict(cls=cl, **c), s)):
          out.append(dict(cls=cls, rank=rank, fam=fam, **c))
        if cls == "quantized_bits":
          # elements_per_scale needs a scale axis: enumerate those pairs explicitly (with both bit widths
          # and an exponent bound) so they are inside the space regardless of the deviation bound
          for sa in _axes_for_rank(rank)[1:]:
            for eps in (1, 2, [2, 2]):
              for bits in (4, 8):
                for mn, mx in ((None, None), (-2, None), (None, 0)):
                  c = dict(cls=cls, alpha="auto_po2", bits=bits, integer=0, scale_axis=sa, eps=eps,
                           min_po2=mn, max_po2=mx, pts=False, keep_negative=True, symmetric=1)
                  if _valid(c, shape):
                    out.append(dict(rank=rank, fam=fam, **c))
  # the signed 1-bit sign mode of quantized_linear under a data-dependent scale: its clip range is the special-cased
  # [-0.5, 0.5]; the clauses decided for it are the generic ones (finite outputs, finite positive scale, two codes +-scale/2)
  for rank in (1, 2, 3, 4):
    for fam in ("A", "B"):
      for alpha in ("auto", "auto_po2"):
        for sym in (1, 0):
          out.append(dict(cls="quantized_linear", rank=rank, fam=fam, alpha=alpha, bits=1, integer=0, scale_axis=None, eps=None,
                          min_po2=None, max_po2=None, pts=False, keep_negative=True, symmetric=sym, sign_mode=True))
  # the route every Q layer takes: the quantizer is built with alpha=None (and, for quantized_linear, the asymmetric
  # range), used once, and then switched to alpha='auto_po2', symmetric=True by the layer hook _set_trainable_parameter;
  # the object must then satisfy every clause of the configuration it now reports
  for c in list(out):
    if c["alpha"] == "auto_po2" and c["symmetric"] == 1 and c["keep_negative"] is True and not c["pts"] \
        and c["bits"] in (4, 8) and c["min_po2"] is None and c["max_po2"] is None and c["eps"] is None:
      out.append(dict(c, route="hook"))
  # a quantizer rebuilt from its own configuration (what every saved / cloned model contains): the rebuilt object is
  # held to the clauses of the configuration it was built from - exponent bounds, grouping, axis
  for c in list(out):
    if not c.get("route") and c["alpha"] == "auto_po2" and not c["pts"] and (
        c["min_po2"] is not None or c["max_po2"] is not None or c["eps"] is not None or c["scale_axis"] is not None):
      out.append(dict(c, route="roundtrip"))
  seen, uniq = set(), []
  for c in out:
    key = repr(sorted(c.items(), key=lambda kv: kv[0]))
    if key not in seen:
      seen.add(key)
      c["_seed"] = seed
      uniq.append(c)
  return uniq


def pts_array(shape):
  c = shape[-1]
  return np.array([2.0 ** ((i % 3) - 3) for i in range(c)], dtype=np.float32)


def make(cfg, shape):
  from qkeras import quantizers as Q  # pylint: disable=import-outside-toplevel
  if cfg.get("route") == "hook":
    tf = common.tf_init()
    if cfg["cls"] == "quantized_bits":
      q = Q.quantized_bits(bits=cfg["bits"], integer=cfg["integer"], alpha=None, scale_axis=cfg["scale_axis"],
                           elements_per_scale=cfg["eps"])
    else:
      q = Q.quantized_linear(bits=cfg["bits"], integer=cfg["integer"], alpha=None, scale_axis=cfg["scale_axis"],
                             keep_negative=True, symmetric=0)
    q(tf.ones(shape))
    q._set_trainable_parameter()   # pylint: disable=protected-access
    return q
  if cfg.get("route") == "roundtrip":
    q = make(dict(cfg, route=None), shape)
    return type(q).from_config(q.get_config())
  if cfg["cls"] == "quantized_bits":
    return Q.quantized_bits(bits=cfg["bits"], integer=cfg["integer"], alpha=cfg["alpha"],
                            scale_axis=cfg["scale_axis"], elements_per_scale=cfg["eps"],
                            min_po2_exponent=cfg["min_po2"], max_po2_exponent=cfg["max_po2"],
                            post_training_scale=pts_array(shape) if cfg["pts"] else None)
  return Q.quantized_linear(bits=cfg["bits"], integer=cfg["integer"], alpha=cfg["alpha"],
                            scale_axis=cfg["scale_axis"], keep_negative=cfg["keep_negative"],
                            symmetric=cfg["symmetric"])


def code_bounds(cfg):
  b = cfg["bits"]
  if cfg["cls"] == "quantized_bits":
    top = 2 ** (b - 1) - 1
    return -top, top
  kn = int(bool(cfg["keep_negative"]))
  ub = 2 ** (b - kn)
  return kn * (-ub + int(cfg["symmetric"])), ub - 1


def step_of(cfg):
  if cfg["cls"] == "quantized_bits":
    return 2.0 ** cfg["integer"] / 2.0 ** (cfg["bits"] - 1)
  return 2.0 ** (cfg["integer"] - cfg["bits"] + int(bool(cfg["keep_negative"])))


def groups(cfg, shape):
  r = len(shape)
  if r == 1:
    if cfg["cls"] == "quantized_bits" and cfg["alpha"] == "auto" and not cfg["pts"]:
      return np.zeros(shape, dtype=np.int64)
    return np.arange(shape[0])
  if cfg["pts"]:
    return common.group_ids(shape, None, None)
  eps = cfg["eps"] if cfg["alpha"] == "auto_po2" else None
  return common.group_ids(shape, cfg["scale_axis"], eps)


def run_case(cfg):
  tf = common.tf_init()
  common.reset_keras()
  seed = cfg.get("_seed", 0)
  shape = (common.SHAPES_A if cfg["fam"] == "A" else common.SHAPES_B)[cfg["rank"]]
  viol = []
  lo, hi = code_bounds(cfg)
  step = step_of(cfg)

  def bad(clause, what, **detail):
    if len(viol) < 8:
      viol.append({"key": "%s:%s:%s" % (cfg["cls"], clause, cfg["alpha"] + (":frozen" if cfg["pts"] else "") +
                                          ({"hook": ":via-layer-hook", "roundtrip": ":rebuilt-from-config"}.get(cfg.get("route"), ""))),
                   "what": "%s %s: %s" % (cfg["cls"], clause, what), "detail": dict(cfg=cfg, **detail)})

  evals = 0
  digests = []
  scales_differ = moved = False
  gid = groups(cfg, shape)

  def call(x):
    q = make(cfg, shape)
    y = np.asarray(q(tf.constant(x)), dtype=np.float32)
    s = q.scale
    s = np.asarray(s.numpy() if hasattr(s, "numpy") else s, dtype=np.float32)
    return q, y, s

  for pattern in common.PATTERNS:
    x = common.tensor(shape, pattern, seed)
    x64 = x.astype(np.float64)
    q, y, scale = call(x)
    digests.append(common.digest(y, scale))
    if y.shape != x.shape or not np.all(np.isfinite(y)):
      bad("finite", "non-finite output (%s)" % pattern, pattern=pattern)
      continue
    if cfg.get("sign_mode"):
      evals += x.size
      qs = np.asarray(q.quantization_scale, dtype=np.float64)
      if not (np.all(np.isfinite(qs)) and np.all(qs > 0)):
        bad("sign-mode:scale-positive-finite", "quantization scale %r (%s)" % (qs.reshape(-1)[:3].tolist(), pattern), pattern=pattern)
      else:
        qb = np.broadcast_to(qs, shape)
        okc = np.isclose(np.abs(y.astype(np.float64)), 0.5 * qb, rtol=1e-6, atol=0) | ((qb * 0.5 < 1e-30) & (y == 0))
        if not okc.all():
          i = np.unravel_index(int(np.flatnonzero(~okc.reshape(-1))[0]), shape)
          bad("sign-mode:codes", "output %r at x=%r is not +-scale/2 = %r (%s)" % (float(y[i]), float(x[i]), float(0.5 * qb[i]), pattern),
              pattern=pattern)
      moved = True
      scales_differ = True
      continue
    evals += x.size
    try:
      sb = np.broadcast_to(scale, shape).astype(np.float64)
    except ValueError:
      bad("scale-shape", "scale shape %r does not broadcast to %r" % (scale.shape, shape), pattern=pattern)
      continue
    if not np.all(np.isfinite(sb)) or (sb <= 0).any():
      i = np.unravel_index(int(np.flatnonzero(~(np.isfinite(sb) & (sb > 0)).reshape(-1))[0]), shape)
      bad("scale-positive", "scale %r is not a positive finite value (%s, channel data max |x| = %r)" % (
          float(sb[i]), pattern, float(np.abs(x64[gid == gid[i]]).max())), pattern=pattern)
    for g in np.unique(gid):
      sv = sb[gid == g]
      evals += 1
      if not np.all(sv == sv[0]):
        bad("scale-per-group", "scale not constant inside group %d (%s): %r" % (g, pattern, np.unique(sv)[:4].tolist()),
            pattern=pattern)
        break
    if len(np.unique(sb)) > 1:
      scales_differ = True
    unit = sb * step
    pos = sb > 0
    # ---- y = scale * step * z with integer in-range z -------------------------------------------
    z = np.zeros(shape)
    z[pos] = np.round(y.astype(np.float64)[pos] / unit[pos])
    recon = (unit * z).astype(np.float32)
    tol = common.f32_ulp(np.maximum(np.maximum(np.abs(recon), np.abs(y)), np.abs(x)))
    exact_needed = cfg["alpha"] == "auto_po2"
    diff = np.abs(recon.astype(np.float64) - y.astype(np.float64))
    okrel = np.where(pos, diff <= (0 if exact_needed else 1) * tol, y == 0)
    if not okrel.all():
      i = np.unravel_index(int(np.flatnonzero(~okrel.reshape(-1))[0]), shape)
      bad("scale*code", "x=%r -> y=%r is not scale %r * step %r * integer (%s)" % (
          float(x[i]), float(y[i]), float(sb[i]), step, pattern), pattern=pattern, x=float(x[i]), y=float(y[i]))
    # a frozen scale does not follow the data: inputs beyond 2^22 steps are outside the float32 horizon
    # of the straight-through form (same bound as C01)
    inh = (np.abs(x64) < 2.0 ** 22 * unit) if cfg["pts"] else np.ones(shape, dtype=bool)
    if (((z < lo) | (z > hi)) & inh).any():
      i = np.unravel_index(int(np.flatnonzero((((z < lo) | (z > hi)) & inh).reshape(-1))[0]), shape)
      bad("code-range", "code %r outside [%d,%d] at x=%r (%s)" % (float(z[i]), lo, hi, float(x[i]), pattern),
          pattern=pattern)
    if (y != x).any():
      moved = True
    # ---- power-of-two scales ------------------------------------------------------------------------
    if cfg["alpha"] == "auto_po2" and not cfg["pts"]:
      sp = sb[pos]
      mant, ex = np.frexp(sp)
      evals += int(sp.size)
      if (mant != 0.5).any():
        bad("po2-scale", "scale %r is not a power of two (%s)" % (float(sp[mant != 0.5][0]), pattern), pattern=pattern)
      else:
        # the exponent bounds constrain the quantization-step scale the refinement computes, i.e. the
        # exposed scale divided by 2^(bits-1) (quantized_bits stores scale*m)
        e = ex - 1 - (cfg["bits"] - 1)
        if cfg["min_po2"] is not None and (e < cfg["min_po2"]).any():
          bad("po2-bounds", "scale exponent %d below min_po2_exponent %d (%s)" % (e.min(), cfg["min_po2"], pattern),
              pattern=pattern)
        if cfg["max_po2"] is not None and (e > cfg["max_po2"]).any():
          bad("po2-bounds", "scale exponent %d above max_po2_exponent %d (%s)" % (e.max(), cfg["max_po2"], pattern),
              pattern=pattern)
    # ---- 'auto': channel maximum -> top code, nothing clipped ---------------------------------------
    if cfg["alpha"] == "auto" and not cfg["pts"]:
      for g in np.unique(gid):
        m = (gid == g)
        xs, zs, us = x64[m], z[m], unit[m]
        if us[0] <= 0:
          continue
        evals += 1
        if cfg["cls"] == "quantized_linear" and not cfg["keep_negative"]:
          j = int(np.argmax(xs))
          if xs[j] <= 1e-6:
            continue
          want = hi
        else:
          j = int(np.argmax(np.abs(xs)))
          if abs(xs[j]) <= 1e-6:
            continue
          want = hi if xs[j] > 0 else (lo if cfg["cls"] == "quantized_linear" else -hi)
        # asymmetric range: the negative maximum sits exactly on the tie -(2^(b-1) - 1/2): either code
        tie_ok = (cfg["cls"] == "quantized_linear" and not cfg["symmetric"] and cfg["keep_negative"]
                  and xs[j] < 0 and zs[j] == lo + 1)
        if zs[j] != want and not tie_ok:
          bad("auto-top-code", "group %d (%s): max element %r got code %r, expected %r" % (
              g, pattern, xs[j], zs[j], want), pattern=pattern)
        xa = xs if (cfg["cls"] == "quantized_bits" or cfg["keep_negative"]) else np.maximum(xs, 0)
        err = np.abs(zs * us - xa)
        if (err > us / 2 * (1 + 1e-5) + 1e-30).any():
          jj = int(np.argmax(err - us / 2))
          bad("auto-no-clip", "group %d (%s): x=%r coded %r*%r: error above half a step" % (
              g, pattern, xs[jj], zs[jj], us[jj]), pattern=pattern)
    # ---- frozen post-training scale -------------------------------------------------------------------
    if cfg["pts"]:
      want = np.broadcast_to(pts_array(shape), shape).astype(np.float64)
      evals += x.size
      if not np.array_equal(sb, want):
        bad("frozen-scale", "scale changed by the call: %r" % np.unique(sb)[:4].tolist(), pattern=pattern)
      else:
        zexp = np.sign(x64) * np.minimum(np.floor(np.abs(x64) / (want * step) + 0.5), hi)
        if not np.array_equal(zexp[inh], z[inh]):
          i = np.unravel_index(int(np.flatnonzero(((zexp != z) & inh).reshape(-1))[0]), shape)
          bad("frozen-code", "x=%r scale=%r: code %r, expected %r (%s)" % (
              float(x[i]), float(want[i]), float(z[i]), float(zexp[i]), pattern), pattern=pattern)
    # ---- equivariance under powers of two ---------------------------------------------------------------
    if pattern in EQUIV_PATTERNS and not cfg["pts"] and cfg["min_po2"] is None and cfg["max_po2"] is None:
      big = np.where(np.abs(x) >= 1e-3, x, np.float32(0.25) * np.sign(x) + (x == 0) * np.float32(0.25))
      big = big.astype(np.float32)
      _, y0, s0 = call(big)
      for k in (-3, -2, -1, 1, 2, 3):
        f = np.float32(2.0 ** k)
        _, yk, sk = call(big * f)
        evals += x.size
        if not np.array_equal(yk, y0 * f):
          i = np.unravel_index(int(np.flatnonzero((yk != y0 * f).reshape(-1))[0]), shape)
          bad("po2-equivariance", "q(2^%d x) != 2^%d q(x) at x=%r: %r vs %r (%s)" % (
              k, k, float(big[i]), float(yk[i]), float(y0[i] * f), pattern), pattern=pattern, k=k)
          break
  return {"evals": evals, "transitions": len(common.PATTERNS) + 14, "nontrivial": int(scales_differ and moved),
          "state": repr(sorted(cfg.items(), key=lambda kv: kv[0])), "digest": common.digest(*digests),
          "violations": viol, "traces": len(common.PATTERNS),
          "sample": {"cfg": cfg, "shape": list(shape), "code_bounds": [lo, hi], "step": step}}

# (appended: sub-lattices added after the seeded waves; kept out of the original RULE text for readability)
RULE = RULE + '; plus: the layer-hook route (alpha=None object, used once, then _set_trainable_parameter) and the rebuilt-from-config route, each held to the clauses of the configuration the object then reports'
RULE = RULE + '; the signed 1-bit sign mode of quantized_linear under auto scales (finite outputs, finite positive scale, codes +-scale/2)'
