"""C01 - fixed-point quantizers emit only representable codes of the declared format.

Kernel L (lattice x breakpoint alphabet), DESIGN 3/C01.  For every configuration of the lattice
the REAL quantizer is called eagerly on its complete breakpoint alphabet (as rank 1..4 tensors)
and every output element is decided against the format recomputed from the constructor arguments.
"""
import numpy as np

from mc import common
from mc import fixedpoint as fp

ID = "C01"
TITLE = "fixed-point quantizers emit only representable codes"
TECHNIQUE = ("exhaustive enumeration of a bounded configuration lattice x per-configuration "
             "breakpoint alphabet on the real quantizers, exact-arithmetic format oracle")
RULE = ("cases = every configuration of the lattice (class x bits x integer x keep_negative x "
        "symmetric x constant alpha / slope / surrogate mode); each is executed on its full "
        "breakpoint alphabet in ranks 1-4; evaluations = element-level decisions; a case is "
        "non-trivial when the quantizer changed at least one input, saturated at least one "
        "input at each existing edge and produced more than one distinct code")
ASSUMPTIONS = [
    "TensorFlow eager kernels and tf_keras (legacy Keras) are trusted",
    "bits <= 6 (quick) / 8 (thorough); constant scales are powers of two; |x| < 2^24 steps",
    "leaky formats whose negative range is narrower than one step (slope*2^(bits-1) < 1) are outside the lattice",
    "inputs outside the breakpoint alphabet are covered only through the monotonicity decided by C02",
]


def bound(tier):
  return {"max_bits": 6 if tier == "quick" else 8, "lattice": "full product",
          "alphabet": "A_fix: every code and midpoint +-2ulp, 3 codes beyond each edge, zeros, "
                      "denormals, 2^23 and 2^24-1 steps", "ranks": [1, 2, 3, 4]}


def worker_init():
  common.tf_init()


STOCH_ANSWERS = [0.0, 2.0 ** -24, 0.25, 0.5, 0.75, 1 - 2.0 ** -24]


def enumerate_cases(tier, seed):
  cases = fp.configs(6 if tier == "quick" else 8)
  # the same formats with use_stochastic_rounding=True in the training phase, the random source owned by the
  # harness (C08's interposer): the code-membership clauses must hold for EVERY draw, so each of the constant
  # answer classes (including the end points 0 and 1-2^-24 of the generator's range) is executed
  for cfg in fp.configs(4 if tier == "quick" else 5):
    if cfg["cls"] in ("quantized_tanh", "quantized_sigmoid") and cfg["mode"] != "hard":
      continue
    if cfg.get("alpha") not in (None, 1.0) and cfg["cls"] in ("quantized_bits", "quantized_linear"):
      continue
    if cfg["cls"] in ("quantized_bits", "quantized_linear") and cfg["bits"] - int(bool(cfg["keep_negative"])) == 0:
      continue
    cases.append(dict(stoch=True, **cfg))
  # quantized_relu with an explicit upper bound of the surrogate and/or the unquantized clip (is_quantized_clip=False):
  # whatever the bound, the output is a code of the declared format
  for cfg in fp.configs(4 if tier == "quick" else 6, classes=("quantized_relu",)):
    for extra in ({"is_quantized_clip": False}, {"is_quantized_clip": False, "relu_upper_bound": 1.5},
                  {"is_quantized_clip": False, "relu_upper_bound": 3.0}, {"relu_upper_bound": 0.75}):
      rub = extra.get("relu_upper_bound")
      f = fp.fmt(cfg)
      # the documentation asks for a bound "appropriate to the quantization parameters": the lattice keeps bounds that
      # are codes of the format or lie above its largest code (an unquantized clip at a non-code emits that non-code)
      if rub is not None and not extra.get("is_quantized_clip", True) and rub < f["hi"] * f["step"] and (rub / f["step"]) % 1:
        continue
      cases.append(dict(cfg, extra=extra))
  # the documented modifiable attribute `symmetric` of quantized_linear re-assigned after construction (before or after a
  # first call): the object must emit the codes of the format it now declares
  for cfg in fp.configs(4 if tier == "quick" else 6, classes=("quantized_linear",)):
    if cfg["alpha"] not in (None, 1.0) or not cfg["keep_negative"] or cfg["bits"] < 2:
      continue
    for mut in ("reassign", "call-then-reassign"):
      cases.append(dict(cfg, mut=mut))
  # constant PER-CHANNEL scales (alpha given as a vector of unequal powers of two, a documented use): channel c must
  # behave as the scalar configuration alpha[c], and min()/max() must enclose the outputs of every channel
  for cfg in fp.configs(4 if tier == "quick" else 6, classes=("quantized_bits", "quantized_linear")):
    if cfg["alpha"] != 1.0:
      continue
    for pc in ([1.0, 0.25, 0.5], [0.5, 2.0, 1.0]):
      cases.append(dict(cfg, alpha=None, pc=pc))
  return cases


def _tags(cfg, f):
  t = []
  a = f.get("alpha", 1.0)
  if a > 1:
    t.append("alpha>1")
  elif a < 1:
    t.append("alpha<1")
  if f["sign"]:
    t.append("sign")
  if f["kind"] == "leaky":
    t.append("leaky")
  if f["kind"] in ("tanh", "sigmoid"):
    t.append(cfg["mode"])
  return ":".join(t)


def run_stochastic(cfg, f, x, tags):
  """Training phase, stochastic rounding, every constant answer class of the owned random source."""
  tf = common.tf_init()
  from mc import choices  # pylint: disable=import-outside-toplevel
  from props import c08  # pylint: disable=import-outside-toplevel
  viol = []

  def bad(clause, what, **detail):
    if len(viol) < 6 and not any(v["key"].endswith(clause + ":stochastic") for v in viol):
      viol.append({"key": "%s:%s:stochastic" % (cfg["cls"], clause), "what": "%s %s (stochastic rounding, training): %s" % (
          cfg["cls"], clause, what), "detail": dict(cfg=dict(cfg, stoch=True), **detail)})
  evals = 0
  digests = []
  allv = set()
  for u in STOCH_ANSWERS:
    q = fp.make(cfg, use_stochastic_rounding=True)
    ch = choices.Chooser([])

    def answer(idx, k, shape, minval, maxval, u=u):
      return np.full(shape, u, dtype=np.float32)
    y, rng = c08.execute(tf, q, x, 1, ch, answer)
    y64 = y.astype(np.float64).reshape(-1)
    digests.append(common.digest(y))
    evals += int(y64.size)
    c = y64 / f["step"]
    if (c != np.round(c)).any():
      i = int(np.flatnonzero(c != np.round(c))[0])
      bad("multiple-of-step", "draw %r: output %r at x=%r is not a multiple of step %r" % (u, float(y64[i]), float(x[i]), f["step"]))
    elif ((c < f["lo"]) | (c > f["hi"])).any():
      i = int(np.flatnonzero((c < f["lo"]) | (c > f["hi"]))[0])
      bad("code-range", "draw %r: code %r at x=%r outside [%d,%d]" % (u, float(c[i]), float(x[i]), f["lo"], f["hi"]))
    qmin, qmax = float(np.min(fp.to_f(q.min()))), float(np.max(fp.to_f(q.max())))
    if y64.min() < qmin or y64.max() > qmax:
      bad("min()/max()", "draw %r: outputs [%r,%r] not enclosed by [%r,%r]" % (u, float(y64.min()), float(y64.max()), qmin, qmax))
    allv.update(np.unique(y64).tolist())
  if len(allv) > 2 ** cfg["bits"]:
    bad("count", "%d distinct outputs over all draws > 2^%d" % (len(allv), cfg["bits"]))
  common.reset_keras()
  return {"evals": evals, "transitions": len(STOCH_ANSWERS), "nontrivial": int(len(allv) > 1),
          "state": "stoch" + repr(sorted(cfg.items())), "digest": common.digest(*digests), "violations": viol, "traces": 0,
          "sample": {"cfg": cfg, "stochastic": True, "draws": STOCH_ANSWERS}}


def run_per_channel(cfg):
  tf = common.tf_init()
  from qkeras import quantizers as Q  # pylint: disable=import-outside-toplevel
  pc = cfg["pc"]
  base = {k: v for k, v in cfg.items() if k != "pc"}
  fs = [fp.fmt(dict(base, alpha=a)) for a in pc]
  x1 = np.unique(np.concatenate([fp.alphabet(dict(base, alpha=a)) for a in pc]))
  # the stated horizon |x| < 2^24 steps holds for EVERY channel's step (the union alphabet contains the large points
  # of the coarsest channel)
  x1 = x1[np.abs(x1.astype(np.float64)) < (2.0 ** 24 - 1) * min(min(f["step"], f.get("runit", f["step"])) for f in fs)]
  x = np.stack([x1] * len(pc), axis=-1)
  # quantized_bits compares alpha with a string, which a numpy vector does not support: a plain list there
  q = getattr(Q, cfg["cls"])(bits=cfg["bits"], integer=cfg["integer"], symmetric=cfg["symmetric"],
                             keep_negative=cfg["keep_negative"],
                             alpha=list(pc) if cfg["cls"] == "quantized_bits" else np.array(pc, dtype=np.float32))
  y = np.asarray(q(tf.constant(x)), dtype=np.float64)
  viol = []

  def bad(clause, what):
    if len(viol) < 6 and not any((":" + clause + ":per-channel") in v["key"] for v in viol):
      viol.append({"key": "%s:%s:per-channel%s" % (cfg["cls"], clause, ":alpha>1" if max(pc) > 1 else ""), "what": "%s %s (per-channel alpha %r): %s" % (
          cfg["cls"], clause, pc, what), "detail": {"cfg": cfg}})
  qmin, qmax = np.asarray(fp.to_f(q.min()), dtype=np.float64).reshape(-1), np.asarray(fp.to_f(q.max()), dtype=np.float64).reshape(-1)
  distinct = 0
  for c, f in enumerate(fs):
    yc = y[:, c]
    if f["sign"]:
      ok = np.isin(yc, np.asarray(f["allowed"], dtype=np.float64))
      if not ok.all():
        i = int(np.flatnonzero(~ok)[0])
        bad("code-set", "channel %d: output %r at x=%r not in %r" % (c, float(yc[i]), float(x1[i]), f["allowed"]))
    else:
      k = yc / f["step"]
      if (k != np.round(k)).any():
        i = int(np.flatnonzero(k != np.round(k))[0])
        bad("multiple-of-step", "channel %d: output %r at x=%r is not a multiple of the channel's step %r" % (c, float(yc[i]), float(x1[i]), f["step"]))
      elif ((k < f["lo"]) | (k > f["hi"])).any():
        i = int(np.flatnonzero((k < f["lo"]) | (k > f["hi"]))[0])
        bad("code-range", "channel %d: code %r at x=%r outside [%d,%d]" % (c, float(k[i]), float(x1[i]), f["lo"], f["hi"]))
    lo_c = qmin[c] if qmin.size == len(pc) else qmin.min()
    hi_c = qmax[c] if qmax.size == len(pc) else qmax.max()
    if yc.min() < lo_c:
      bad("min()", "channel %d: output %r is below min() = %r" % (c, float(yc.min()), qmin.tolist()))
    if yc.max() > hi_c:
      bad("max()", "channel %d: output %r is above max() = %r" % (c, float(yc.max()), qmax.tolist()))
    distinct += len(np.unique(yc))
  common.reset_keras()
  return {"evals": int(y.size), "transitions": len(pc), "nontrivial": int(distinct > len(pc)),
          "state": "pc" + repr(sorted((k, repr(v)) for k, v in cfg.items())), "digest": common.digest(y.astype(np.float32), qmin, qmax),
          "violations": viol, "traces": 0, "sample": {"cfg": cfg, "per_channel": True, "alphabet_size": int(x1.size)}}


def run_case(cfg):
  cfg = dict(cfg)
  if cfg.get("pc"):
    return run_per_channel(cfg)
  tf = common.tf_init()
  common.reset_keras()
  f = fp.fmt(cfg)
  x = fp.alphabet(cfg)
  viol = []
  tags = _tags(cfg, f)

  def bad(clause, what, **detail):
    if len(viol) < 8:
      viol.append({"key": "%s:%s%s" % (cfg["cls"], clause, (":" + tags) if tags else ""),
                   "what": "%s %s: %s" % (cfg["cls"], clause, what),
                   "detail": dict(cfg=cfg, **detail)})

  stoch = cfg.pop("stoch", False) if "stoch" in cfg else False
  if stoch:
    return run_stochastic(cfg, f, x, tags)
  extra = cfg.pop("extra", None) or {}
  mut = cfg.pop("mut", None)
  if extra:
    tags = (tags + ":" if tags else "") + "+".join(sorted(extra))
  if mut:
    tags = (tags + ":" if tags else "") + "symmetric-reassigned"
    # cfg is the FINAL configuration; the object starts with the other value of `symmetric`
    q = fp.make(dict(cfg, symmetric=1 - int(cfg["symmetric"])))
    if mut == "call-then-reassign":
      q(tf.constant(x))
    q.symmetric = cfg["symmetric"]
  else:
    q = fp.make(cfg, **extra)
  views = common.rank_views(x)
  outs = [np.asarray(q(tf.constant(v)), dtype=np.float32).reshape(-1) for v in views]
  y = outs[0]
  xp = views[0]
  for r, o in enumerate(outs[1:], start=2):
    if not np.array_equal(o, y):
      i = int(np.flatnonzero(o != y)[0])
      bad("rank-independence", "rank %d output differs from rank 1 at x=%r" % (r, float(xp[i])),
          x=float(xp[i]), y1=float(y[i]), yr=float(o[i]))
  y64 = y.astype(np.float64)
  if not np.all(np.isfinite(y64)):
    i = int(np.flatnonzero(~np.isfinite(y64))[0])
    bad("finite", "non-finite output at x=%r" % float(xp[i]), x=float(xp[i]))
  # --- code membership -------------------------------------------------------------------
  if f["sign"]:
    ok = np.isin(y64, np.asarray(f["allowed"], dtype=np.float64))
    if not ok.all():
      i = int(np.flatnonzero(~ok)[0])
      bad("code-set", "output %r at x=%r not in %r" % (float(y[i]), float(xp[i]), f["allowed"]),
          x=float(xp[i]), y=float(y[i]))
  else:
    c = y64 / f["step"]
    nonint = c != np.round(c)
    if nonint.any():
      i = int(np.flatnonzero(nonint)[0])
      bad("multiple-of-step", "output %r at x=%r is not a multiple of step %r" % (
          float(y[i]), float(xp[i]), f["step"]), x=float(xp[i]), y=float(y[i]))
    oor = (c < f["lo"]) | (c > f["hi"])
    if oor.any():
      i = int(np.flatnonzero(oor)[0])
      bad("code-range", "code %r at x=%r outside [%d,%d]" % (float(c[i]), float(xp[i]), f["lo"],
                                                              f["hi"]),
          x=float(xp[i]), y=float(y[i]), code=float(c[i]))
  distinct = np.unique(y64)
  if len(distinct) > 2 ** cfg["bits"]:
    bad("count", "%d distinct outputs > 2^%d" % (len(distinct), cfg["bits"]), n=len(distinct))
  # --- min()/max() enclose -----------------------------------------------------------------
  qmin, qmax = float(np.min(fp.to_f(q.min()))), float(np.max(fp.to_f(q.max())))
  if y64.min() < qmin:
    bad("min()", "output %r below min()=%r" % (float(y64.min()), qmin), ymin=float(y64.min()),
        qmin=qmin)
  if y64.max() > qmax:
    bad("max()", "output %r above max()=%r" % (float(y64.max()), qmax), ymax=float(y64.max()),
        qmax=qmax)
  # --- range() enumerates exactly the reachable set ------------------------------------------
  has_range = False
  if hasattr(q, "range"):
    try:
      rng = np.asarray(q.range(), dtype=np.float64).reshape(-1)
      has_range = True
    except AssertionError:
      rng = None   # the class declares range() unsupported for this configuration
    if rng is not None and "relu_upper_bound" not in extra:
      if sorted(set(rng.tolist())) != sorted(set(distinct.tolist())) or len(rng) != len(set(rng.tolist())):
        bad("range()", "range() %r != reachable set %r" % (sorted(set(rng.tolist()))[:6],
                                                            distinct.tolist()[:6]),
            range=sorted(rng.tolist())[:40], reachable=distinct.tolist()[:40])
  # the reachable set is complete: every code point of the format is in the alphabet and is hit
  if not f["sign"]:
    want = set(np.arange(f["lo"], f["hi"] + 1, dtype=np.float64).tolist())
    if f["kind"] == "leaky":
      pass
    got = set((distinct / f["step"]).tolist())
    missing = want - got
    if missing and f["kind"] in ("linear", "relu", "leaky") and f.get("alpha", 1.0) == 1.0 and "relu_upper_bound" not in extra:
      bad("reachable", "codes %r are never produced" % sorted(missing)[:5], missing=sorted(missing)[:20])
  changed = bool(np.any(y64 != xp.astype(np.float64)))
  sat_hi = bool(np.any(y64 == (f["allowed"][1] if f["sign"] else f["hi"] * f["step"])))
  nontrivial = int(changed and sat_hi and len(distinct) > 1)
  return {
      "evals": int(sum(o.size for o in outs)),
      "transitions": len(outs) + 2,
      "nontrivial": nontrivial,
      "state": repr(sorted(cfg.items())) + repr(sorted(extra.items())) + str(mut),
      "digest": common.digest(y, qmin, qmax),
      "violations": viol,
      "traces": 0,
      "info": {"range_checked": int(has_range)},
      "sample": {"cfg": cfg, "alphabet_size": int(x.size), "format": {k: f[k] for k in ("step", "lo", "hi")},
                 "first_outputs": y[:6].tolist(), "distinct_outputs": int(len(distinct))},
  }

# (appended: sub-lattices added after the seeded waves; kept out of the original RULE text for readability)
RULE = RULE + '; plus: the same formats under stochastic rounding with an owned random source answering each of 6 constant draws; constant per-channel scales (two alpha vectors); quantized_relu with is_quantized_clip / relu_upper_bound; quantized_linear whose `symmetric` attribute was re-assigned before / after a first call'
