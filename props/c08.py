"""C08 - stochastic rounding: adjacent code, unbiased in training, exact at inference.

Kernel H1 (choice-point explorer) with an OWNED random source.  tf.random.uniform as seen by
qkeras.quantizers is replaced from the harness side; every RNG call is a choice point with 7 answer
classes placed relative to each element's own threshold (fraction f of the input between its two
neighbouring codes):  f/2, (1+f)/2, f-ulp, f, f+ulp, 0, 1-2^-24.  The learning phase is the outermost
choice.  Because the answers straddle the threshold by one float32 ulp on both sides, "the output is
the upper code exactly when the draw is <= f" is decided exhaustively, hence P(upper) = f and
E[y] = clipped x exactly -- expectation is located, not estimated from samples.
"""
import numpy as np

from mc import choices
from mc import common

ID = "C08"
TITLE = "stochastic rounding: adjacent code, unbiased in training, exact at inference"
TECHNIQUE = ("stateless choice-point exploration (DFS, deviation-bounded / exhaustive) of every RNG answer class "
             "and learning phase on the real quantizers with an owned random source, against a threshold "
             "reference model; free-running membership pass with the real RNG as supporting evidence")
RULE = ("cases = stochastic configurations; for each the choice tree {learning phase} x {7 answer classes}^(RNG "
        "calls) is explored on a dyadic input alphabet that contains every code and 7 fractional positions "
        "between adjacent codes; states = executions (one per path of the choice tree); evaluations = element-level "
        "decisions; non-trivial = both the upper and the lower neighbour were produced for some non-code input")
ASSUMPTIONS = [
    "TensorFlow eager kernels trusted; the random source is tf.random.uniform as referenced by qkeras.quantizers "
    "(owned by the harness; a free-running pass with the real generator re-checks code membership)",
    "inputs are dyadic (code/8 positions) so that the fraction the implementation computes in float32 is exact; "
    "tanh/sigmoid only with the hard (piecewise-linear) surrogate for the same reason; bits 2..5",
    "for the sign-type quantizers (binary, ternary, stochastic_binary, stochastic_ternary) no +-1 code can have "
    "expectation x: membership for every answer, codes-in => codes-out and exact inference equality are decided",
    "power-of-two inputs satisfy |x| >= 2^-6 so that the library's epsilon does not move the bracketing exponents",
]

NANS = 7


def bound(tier):
  return {"answer_classes_per_rng_call": NANS, "learning_phase": [1, 0], "bits": [2, 5],
          "deviation_bound": "exhaustive for <= 2 RNG calls; 2 (quick) / exhaustive up to 7^3, else 3 (thorough) beyond"}


def worker_init():
  common.tf_init()


def enumerate_cases(tier, seed):
  out = []
  for bits in (2, 3, 4, 5):
    for integer in (0, 1, 2):
      if integer > bits - 1:
        continue
      for kn in (True, False):
        for sym in (0, 1):
          out.append(dict(fam="fixed", cls="quantized_bits", bits=bits, integer=integer, keep_negative=kn, symmetric=sym))
          out.append(dict(fam="fixed", cls="quantized_linear", bits=bits, integer=integer, keep_negative=kn, symmetric=sym))
      for slope in (0.0, 0.25, 0.5):
        if slope and slope * 2 ** (bits - 1) < 1:
          continue
        out.append(dict(fam="relu", cls="quantized_relu", bits=bits, integer=integer, slope=slope))
    for sym in (0, 1):
      out.append(dict(fam="ts", cls="quantized_tanh", bits=bits, symmetric=sym))
      out.append(dict(fam="ts", cls="quantized_sigmoid", bits=bits, symmetric=sym))
  for bits in (2, 3, 4):
    for mv in (None, 1.0, 4.0):
      out.append(dict(fam="po2", cls="quantized_po2", bits=bits, max_value=mv, slope=0.0))
      # quadratic approximation: exponents are restricted to even numbers; the inference-phase equality with the
      # round-to-nearest configuration is judged for every answer, the training phase only for code membership
      out.append(dict(fam="po2", cls="quantized_po2", bits=bits, max_value=mv, slope=0.0, quad=True))
      if bits <= 3:
        out.append(dict(fam="po2", cls="quantized_relu_po2", bits=bits, max_value=mv, slope=0.0, quad=True))
      for slope in (0.0, 0.5):
        if bits <= 3:
          out.append(dict(fam="po2", cls="quantized_relu_po2", bits=bits, max_value=mv, slope=slope))
  # wide exponent ranges (down to 2^-64) on very small inputs, including the float32 neighbours just below a power of
  # two: the bracketing of y between two powers of two must not depend on the epsilon added inside the logarithm
  out.append(dict(fam="po2", cls="quantized_po2", bits=8, max_value=None, slope=0.0, wide=True))
  out.append(dict(fam="po2", cls="quantized_relu_po2", bits=7, max_value=None, slope=0.0, wide=True))
  for alpha in (None, 1.0, "auto", "auto_po2"):
    for u01 in (False, True):
      out.append(dict(fam="sign", cls="binary", alpha=alpha, use_01=u01))
    out.append(dict(fam="sign", cls="stochastic_binary", alpha=alpha))
  for alpha in ("auto", "auto_po2"):
    for unr in (1, 2, 5):
      out.append(dict(fam="sign", cls="ternary", alpha=alpha, unrolls=unr))
    out.append(dict(fam="sign", cls="stochastic_ternary", alpha=alpha))
  for c in out:
    c["_seed"] = seed
    c["_tier"] = tier
  return out


# ------------------------------------------------------------------------------------------------
# reference models: per RNG call the element thresholds, and the expected output for given answers

def answers_unit(f, k):
  """Answer class k for thresholds f in [0,1): float32 tensor in [0,1)."""
  f = f.astype(np.float32)
  one = np.float32(1.0 - 2.0 ** -24)
  if k == 0:
    u = f / np.float32(2)
  elif k == 1:
    u = (np.float32(1) + f) / np.float32(2)
  elif k == 2:
    u = np.nextafter(f, np.float32(-1), dtype=np.float32)
  elif k == 3:
    u = f.copy()
  elif k == 4:
    u = np.nextafter(f, np.float32(2), dtype=np.float32)
  elif k == 5:
    u = np.zeros_like(f)
  else:
    u = np.full_like(f, one)
  return np.clip(u, np.float32(0), one).astype(np.float32)


def grid(lo, hi, step):
  ks = np.arange((lo - 2) * 8, (hi + 2) * 8 + 1)
  return (ks * (step / 8.0)).astype(np.float32)


class _Model:
  """`lt` is the comparison convention at an exact tie draw == threshold (a measure-zero event for a
  continuous draw): the run is judged under both conventions and either is accepted; away from the
  exact tie (one float32 ulp on either side) the two conventions agree."""
  lt = staticmethod(lambda a, b: a < b)


class Fixed(_Model):
  def __init__(self, c):
    self.c = c
    kn = int(bool(c["keep_negative"]))
    ub = c["bits"] - kn
    self.m = 2 ** ub
    self.step = 2.0 ** c["integer"] / self.m
    self.lo = kn * (-self.m + int(c["symmetric"]))
    self.hi = self.m - 1
    self.ncalls = 1

  def make(self, stochastic=True):
    from qkeras import quantizers as Q  # pylint: disable=import-outside-toplevel
    c = self.c
    return getattr(Q, c["cls"])(bits=c["bits"], integer=c["integer"], symmetric=c["symmetric"],
                                keep_negative=c["keep_negative"], use_stochastic_rounding=stochastic)

  def x(self):
    return grid(self.lo, self.hi, self.step)

  def thresholds(self, x):
    p = x.astype(np.float64) / self.step
    if self.c["cls"] == "quantized_linear":
      p = np.clip(p, self.lo, self.hi)
    return [(p - np.floor(p))]

  def expected(self, x, us):
    p = x.astype(np.float64) / self.step
    if self.c["cls"] == "quantized_linear":
      p = np.clip(p, self.lo, self.hi)
    f = (p - np.floor(p)).astype(np.float32)
    code = np.where(self.lt(f, us[0]), np.floor(p), np.ceil(p))
    return np.clip(code, self.lo, self.hi) * self.step, np.clip(np.floor(p), self.lo, self.hi) * self.step, \
        np.clip(np.ceil(p), self.lo, self.hi) * self.step


class Relu(_Model):
  def __init__(self, c):
    self.c = c
    nsb = c["bits"] - (1 if c["slope"] else 0)
    self.m = 2 ** nsb
    self.step = 2.0 ** c["integer"] / self.m
    self.lo = -int(c["slope"] * self.m) if c["slope"] else 0
    self.hi = self.m - 1
    self.ncalls = 2 if c["slope"] else 1

  def make(self, stochastic=True):
    from qkeras import quantizers as Q  # pylint: disable=import-outside-toplevel
    return Q.quantized_relu(bits=self.c["bits"], integer=self.c["integer"], negative_slope=self.c["slope"],
                            use_stochastic_rounding=stochastic)

  def x(self):
    pos = grid(0, self.hi, self.step)
    if self.c["slope"]:
      neg = grid(self.lo, 0, self.step / self.c["slope"])
      return np.unique(np.concatenate([pos, neg]))
    return pos

  def thresholds(self, x):
    p = x.astype(np.float64) / self.step
    out = [p - np.floor(p)]
    if self.c["slope"]:
      p2 = p * self.c["slope"]
      out.append(p2 - np.floor(p2))
    return out

  def expected(self, x, us):
    p = x.astype(np.float64) / self.step
    f = (p - np.floor(p)).astype(np.float32)
    pos = np.clip(np.where(self.lt(f, us[0]), np.floor(p), np.ceil(p)), 0, self.hi)
    lo_c, hi_c = np.clip(np.floor(p), 0, self.hi), np.clip(np.ceil(p), 0, self.hi)
    if self.c["slope"]:
      p2 = p * self.c["slope"]
      f2 = (p2 - np.floor(p2)).astype(np.float32)
      neg = np.clip(np.where(self.lt(f2, us[1]), np.floor(p2), np.ceil(p2)), self.lo, 0)
      pos = pos + neg
      lo_c = lo_c + np.clip(np.floor(p2), self.lo, 0)
      hi_c = hi_c + np.clip(np.ceil(p2), self.lo, 0)
    return pos * self.step, lo_c * self.step, hi_c * self.step


class TanhSig(_Model):
  def __init__(self, c):
    self.c = c
    if c["cls"] == "quantized_tanh":
      self.m = 2 ** (c["bits"] - 1)
      self.lo, self.hi = -self.m + int(c["symmetric"]), self.m - 1
    else:
      self.m = 2 ** c["bits"]
      self.lo, self.hi = int(c["symmetric"]), self.m - 1
    self.step = 1.0 / self.m
    self.ncalls = 1

  def make(self, stochastic=True):
    from qkeras import quantizers as Q  # pylint: disable=import-outside-toplevel
    Q.set_internal_sigmoid("hard")
    return getattr(Q, self.c["cls"])(bits=self.c["bits"], symmetric=self.c["symmetric"],
                                     use_stochastic_rounding=stochastic)

  def _p(self, x):
    x = x.astype(np.float64)
    if self.c["cls"] == "quantized_tanh":
      return np.clip(x, -1, 1) * self.m
    return np.clip(0.5 * x + 0.5, 0, 1) * self.m

  def x(self):
    g = grid(self.lo, self.hi, self.step).astype(np.float64)   # surrogate values s
    x = g if self.c["cls"] == "quantized_tanh" else 2.0 * g - 1.0
    return np.unique(x.astype(np.float32))

  def thresholds(self, x):
    p = self._p(x)
    return [p - np.floor(p)]

  def expected(self, x, us):
    p = self._p(x)
    f = (p - np.floor(p)).astype(np.float32)
    code = np.where(self.lt(f, us[0]), np.floor(p), np.ceil(p))
    return np.clip(code, self.lo, self.hi) * self.step, np.clip(np.floor(p), self.lo, self.hi) * self.step, \
        np.clip(np.ceil(p), self.lo, self.hi) * self.step


class Po2(_Model):
  def __init__(self, c):
    self.c = c
    mv = c["max_value"]
    need = 1 if (mv is None or mv > 1) else 0
    eff = (c["bits"] - 1 - need) if c["cls"] == "quantized_po2" else (c["bits"] - need)
    self.mn, self.mx = -2 ** eff, 2 ** eff - 1
    self.ncalls = 1 if c["cls"] == "quantized_po2" else 2

  def make(self, stochastic=True):
    from qkeras import quantizers as Q  # pylint: disable=import-outside-toplevel
    c = self.c
    quad = bool(c.get("quad"))
    if c["cls"] == "quantized_po2":
      return Q.quantized_po2(bits=c["bits"], max_value=c["max_value"], use_stochastic_rounding=stochastic,
                             quadratic_approximation=quad)
    return Q.quantized_relu_po2(bits=c["bits"], max_value=c["max_value"], negative_slope=c["slope"],
                                use_stochastic_rounding=stochastic, quadratic_approximation=quad)

  def x(self):
    vals = []
    if self.c.get("wide"):
      for e in (-23, -22, -21, -20, -18, -16, -14, -10, -3, 0, 5, 20):
        for j in range(8):
          vals.append(2.0 ** e * (1 + j / 8.0))
        p = np.float32(2.0 ** e)
        for _ in range(3):
          p = np.nextafter(p, np.float32(0), dtype=np.float32)
          vals.append(float(p))
        vals.append(2.0 ** e * (1 - 2.0 ** -12))
      a = np.array(vals, dtype=np.float32)
      # below the library's epsilon the code is 2^min_exp = 2^-64, far outside the float32 horizon of the
      # straight-through form x + (q - x) (|x| < 2^22 |q|, the horizon C03 states): not part of the claim
      a = a[a >= np.float32(1.1e-7)]
      return np.unique(np.concatenate([-a, a]))
    for e in range(max(self.mn - 2, -6), self.mx + 3):
      for j in range(8):
        vals.append(2.0 ** e * (1 + j / 8.0))
    a = np.array(vals, dtype=np.float32)
    return np.unique(np.concatenate([-a, a]))

  def _mags(self, x):
    x = x.astype(np.float64)
    if self.c["cls"] == "quantized_po2":
      return [np.abs(x)]
    return [np.maximum(x, 0), np.maximum(-x, 0) * self.c["slope"]]

  def _filter(self, y):
    mv = self.c["max_value"]
    return np.where(y >= mv, mv, y) if mv is not None else y

  def answers(self, x, idx, k):
    """Answer tensor in the value domain [2^l, 2^r) placed around y (the filtered magnitude)."""
    y = self._filter(self._mags(x)[idx])
    if self.c.get("quad"):
      y = np.sqrt(y)          # the implementation rounds log2 of sqrt(x) and doubles the exponent
    safe = np.where(y > 0, y, 1.0)
    l = np.floor(np.log2(safe))
    exact = 2.0 ** l == safe
    lo, hi = 2.0 ** l, 2.0 ** (l + 1)
    y32 = safe.astype(np.float32)
    if k == 0:
      v = (lo + safe) / 2
    elif k == 1:
      v = (safe + hi) / 2
    elif k == 2:
      v = np.nextafter(y32, np.float32(0), dtype=np.float32)
    elif k == 3:
      v = y32
    elif k == 4:
      v = np.nextafter(y32, np.float32(np.inf), dtype=np.float32)
    elif k == 5:
      v = lo
    else:
      v = np.nextafter(hi.astype(np.float32), np.float32(0), dtype=np.float32)
    v = np.asarray(v, dtype=np.float32)
    # stay inside [2^l, 2^r): a draw below the minimum cannot happen
    v = np.maximum(v, lo.astype(np.float32))
    return v, l, exact

  def expected_exp(self, x, idx, v):
    y = self._filter(self._mags(x)[idx])
    safe = np.where(y > 0, y, 1.0)
    l = np.floor(np.log2(safe))
    lower = self.lt(safe.astype(np.float32), v)
    e = np.where(lower, l, l + 1)
    e_lo, e_hi = l, np.where(2.0 ** l == safe, l, l + 1)
    small = y.astype(np.float32) < np.float32(1e-7)
    clip = lambda t: np.where(small, self.mn, np.clip(t, self.mn, self.mx))
    return clip(e), clip(e_lo), clip(e_hi)


def model_for(c):
  return {"fixed": Fixed, "relu": Relu, "ts": TanhSig, "po2": Po2}[c["fam"]](c)


# ------------------------------------------------------------------------------------------------

class OwnedRNG:
  """Replaces tf.random.uniform for the duration of one execution."""

  def __init__(self, tf, chooser, answer_fn):
    self.tf, self.chooser, self.answer_fn = tf, chooser, answer_fn
    self.calls = 0
    self.picks = []

  def __call__(self, shape, minval=0, maxval=None, dtype=None, seed=None, name=None):
    idx = self.calls
    self.calls += 1
    k = self.chooser.pick("rng%d" % idx, NANS)
    self.picks.append(k)
    try:
      shp = tuple(int(s) for s in np.asarray(shape).reshape(-1))
    except Exception:  # pylint: disable=broad-except
      shp = None       # symbolic shape: the call comes from inside a traced function; the answer keeps the input's shape
    arr = self.answer_fn(idx, k, shp, minval, maxval)
    return self.tf.constant(arr, dtype=self.tf.float32)


def execute(tf, q, x, phase, chooser, answer_fn):
  K = tf.keras.backend
  rng = OwnedRNG(tf, chooser, answer_fn)
  import tensorflow.compat.v2 as tfc  # pylint: disable=import-outside-toplevel
  saved = tfc.random.uniform
  saved_k = K.random_uniform
  tfc.random.uniform = rng
  K.random_uniform = lambda shape, minval=0.0, maxval=1.0, dtype=None, seed=None: rng(shape, minval, maxval)
  K.set_learning_phase(phase)
  try:
    y = np.asarray(q(tf.constant(x)), dtype=np.float32)
  finally:
    tfc.random.uniform = saved
    K.random_uniform = saved_k
    K.set_learning_phase(0)
  return y, rng


def run_rounding(c, tf, viol_add):
  mdl = model_for(c)
  x = mdl.x()
  fam = c["fam"]
  q_twin = mdl.make(stochastic=False)
  y_twin = np.asarray(q_twin(tf.constant(x)), dtype=np.float32)
  execs, evals, st = 0, 0, []
  saw_up = saw_dn = False
  maxcalls = 0
  digests = []

  def run(ch):
    phase = 1 - ch.pick("phase", 2)     # first alternative = training
    used = {}

    def answer(idx, k, shape, minval, maxval):
      if fam == "po2":
        v, _, _ = mdl.answers(x, min(idx, mdl.ncalls - 1), k)
        used[idx] = v
        return v.reshape(shape) if shape is not None else v
      ths = mdl.thresholds(x)
      u = answers_unit(ths[min(idx, len(ths) - 1)], k)
      used[idx] = u
      return u.reshape(shape) if shape is not None else u
    q = mdl.make(stochastic=True)
    y, rng = execute(tf, q, x, phase, ch, answer)
    return phase, y, used, rng.calls

  for trace, (phase, y, used, ncalls) in choices.explore(run, bound=None):
    execs += 1
    maxcalls = max(maxcalls, ncalls)
    ks = [t[2] for t in trace[1:]]
    st.append("%s|%d|%s" % (sorted((k, v) for k, v in c.items() if not k.startswith("_")), phase, ks))
    digests.append(common.digest(y))
    evals += x.size
    if phase == 0:
      if not np.array_equal(y, y_twin):
        i = int(np.flatnonzero(y != y_twin)[0])
        viol_add("inference-equals-nearest", "inference x=%r: %r but round-to-nearest gives %r (answers %r)" % (
            float(x[i]), float(y[i]), float(y_twin[i]), ks), "")
      continue
    if ncalls == 0:
      viol_add("training-uses-rng", "no random draw was requested in the training phase", "")
      continue
    if fam != "po2" and ncalls < mdl.ncalls:
      # every rounding of the format (positive part, leaky negative part) must draw: a rounding that draws nothing is
      # deterministic in training, hence biased
      viol_add("training:draws", "the call requested %d random tensor(s) in the training phase, the format rounds %d "
               "separately quantized parts (a part rounded without a draw is deterministic)" % (ncalls, mdl.ncalls), "")
      continue
    if fam == "po2":
      y64 = y.astype(np.float64)
      mant, ex = np.frexp(np.abs(y64))
      if (mant != 0.5).any():
        i = int(np.flatnonzero(mant != 0.5)[0])
        viol_add("training:not-a-code", "x=%r -> %r is not a power of two (answers %r)" % (float(x[i]), float(y[i]), ks), "")
        continue
      e = ex - 1
      if c.get("quad"):
        continue
      xs = x.astype(np.float64)
      if c["cls"] == "quantized_po2":
        idx_of = np.zeros(x.shape, dtype=int)
      else:
        idx_of = np.where((xs >= 0) | (c["slope"] == 0), 0, 1)
      for idx in range(mdl.ncalls):
        sel = idx_of == idx
        if not sel.any() or idx not in used:
          continue
        e_exp, e_lo, e_hi = mdl.expected_exp(x, idx, used[idx])
        mdl.lt = staticmethod(lambda a, b: a <= b)
        e_alt = mdl.expected_exp(x, idx, used[idx])[0]
        mdl.lt = staticmethod(lambda a, b: a < b)
        adj = (e >= e_lo) & (e <= e_hi)
        if (~adj & sel).any():
          i = int(np.flatnonzero(~adj & sel)[0])
          viol_add("training:not-adjacent", "x=%r -> 2^%d, adjacent exponents [%d,%d] (answers %r)" % (
              float(x[i]), e[i], e_lo[i], e_hi[i], ks), "")
        elif ((e != e_exp) & (e != e_alt) & sel).any():
          i = int(np.flatnonzero((e != e_exp) & (e != e_alt) & sel)[0])
          y_in = float(mdl._filter(mdl._mags(x)[idx])[i])
          tag = "code-input" if 2.0 ** np.floor(np.log2(y_in)) == y_in else ""
          viol_add("training:threshold", "x=%r draw=%r -> 2^%d, the draw/threshold rule gives 2^%d (answers %r)" % (
              float(x[i]), float(used[idx][i]), e[i], e_exp[i], ks), tag)
        saw_up |= bool(((e == e_hi) & (e_hi > e_lo) & sel).any())
        saw_dn |= bool(((e == e_lo) & (e_hi > e_lo) & sel).any())
      continue
    us = [used.get(i) for i in range(max(used) + 1)] if used else []
    want, lo_v, hi_v = mdl.expected(x, us)
    mdl.lt = staticmethod(lambda a, b: a <= b)
    want_alt = mdl.expected(x, us)[0]
    mdl.lt = staticmethod(lambda a, b: a < b)
    y64 = y.astype(np.float64)
    codes = y64 / mdl.step
    if (codes != np.round(codes)).any():
      i = int(np.flatnonzero(codes != np.round(codes))[0])
      viol_add("training:not-a-code", "x=%r -> %r is not a multiple of the step %r (answers %r)" % (
          float(x[i]), float(y[i]), mdl.step, ks), "")
    elif ((y64 < lo_v) | (y64 > hi_v)).any():
      i = int(np.flatnonzero((y64 < lo_v) | (y64 > hi_v))[0])
      viol_add("training:not-adjacent", "x=%r -> %r outside its neighbours [%r,%r] (answers %r)" % (
          float(x[i]), float(y[i]), float(lo_v[i]), float(hi_v[i]), ks), "")
    elif ((y64 != want) & (y64 != want_alt)).any():
      i = int(np.flatnonzero((y64 != want) & (y64 != want_alt))[0])
      viol_add("training:threshold", "x=%r -> %r, the draw/threshold rule gives %r (answers %r)" % (
          float(x[i]), float(y[i]), float(want[i]), ks), "")
    saw_up |= bool(((y64 == hi_v) & (hi_v > lo_v)).any())
    saw_dn |= bool(((y64 == lo_v) & (hi_v > lo_v)).any())
  # --- histories on ONE quantizer object: the learning phase is read at every call ---------------------------------
  def hist_answer(kk):
    def answer(idx, k, shape, minval, maxval):
      if fam == "po2":
        v, _, _ = mdl.answers(x, min(idx, mdl.ncalls - 1), kk)
      else:
        ths = mdl.thresholds(x)
        v = answers_unit(ths[min(idx, len(ths) - 1)], kk)
      return v.reshape(shape) if shape is not None else v
    return answer
  for order in ((1, 0), (0, 1), (1, 0, 1)):
    q = mdl.make(stochastic=True)
    for step, phase in enumerate(order):
      ys = []
      for kk in (0, 1):
        y, _ = execute(tf, q, x, phase, choices.Chooser([]), hist_answer(kk))
        ys.append(y)
        execs += 1
        evals += x.size
        st.append("%s|hist%r|%d|%d" % (sorted((k, v) for k, v in c.items() if not k.startswith("_")), order, step, kk))
        digests.append(common.digest(y))
        if phase == 0 and not np.array_equal(y, y_twin):
          i = int(np.flatnonzero(y != y_twin)[0])
          viol_add("history:inference-equals-nearest", "phases %r on one object, call %d (inference): x=%r -> %r, round-to-nearest "
                   "gives %r" % (list(order), step, float(x[i]), float(y[i]), float(y_twin[i])), "")
      if phase == 1 and np.array_equal(ys[0], ys[1]) and saw_up and saw_dn:
        viol_add("history:training-ignores-draw", "phases %r on one object, call %d (training): draws below and above every "
                 "threshold give identical outputs - rounding is deterministic" % (list(order), step), "")
  return dict(execs=execs, evals=evals, states=st, nontrivial=int(saw_up and saw_dn), digests=digests,
              maxcalls=maxcalls, n=int(x.size), exhaustive=True)


def run_sign(c, tf, viol_add):
  from qkeras import quantizers as Q  # pylint: disable=import-outside-toplevel
  cls = c["cls"]

  def make(stoch=True):
    if cls == "binary":
      return Q.binary(use_01=c["use_01"], alpha=c["alpha"], use_stochastic_rounding=stoch)
    if cls == "stochastic_binary":
      return Q.stochastic_binary(alpha=c["alpha"]) if stoch else Q.binary(alpha=c["alpha"])
    if cls == "ternary":
      return Q.ternary(alpha=c["alpha"], use_stochastic_rounding=stoch, number_of_unrolls=c["unrolls"])
    return Q.stochastic_ternary(alpha=c["alpha"]) if stoch else Q.ternary(alpha=c["alpha"])
  xs = [common.tensor((3, 4), "grid7", c["_seed"]), common.tensor((3, 4), "signs", c["_seed"]),
        np.array([[1, -1, 1, -1], [-1, 1, 1, -1], [1, 1, -1, -1]], dtype=np.float32),
        common.tensor((8,), "ramp", c["_seed"])]
  consts = [2.0 ** -24, 0.25, float(np.nextafter(np.float32(0.5), np.float32(0))), 0.5,
            float(np.nextafter(np.float32(0.5), np.float32(1))), 0.75, 1 - 2.0 ** -24]
  tier = c.get("_tier", "quick")
  execs = evals = 0
  st, digests = [], []
  outcomes = set()
  maxcalls = 0
  capped = False
  for xi, x in enumerate(xs):
    twin = make(False)
    y_twin = np.asarray(twin(tf.constant(x)), dtype=np.float32)

    def run(ch, x=x):
      phase = 1 - ch.pick("phase", 2)

      def answer(idx, k, shape, minval, maxval):
        return np.full(shape, consts[k], dtype=np.float32)
      q = make(True)
      y, rng = execute(tf, q, x, phase, ch, answer)
      s = q.scale
      s = np.asarray(s.numpy() if hasattr(s, "numpy") else (1.0 if s is None else s), dtype=np.float32)
      return phase, y, s, rng.calls
    # number of RNG calls decides the bound: <= 3 calls exhaustive; beyond that deviation-bounded
    probe_calls = run(choices.Chooser([]))[3]
    if probe_calls <= 2 or (tier == "thorough" and probe_calls <= 3):
      bnd = None
    else:
      bnd = 2 if tier == "quick" else 3
      capped = True
    for trace, (phase, y, s, ncalls) in choices.explore(run, bound=bnd):
      execs += 1
      maxcalls = max(maxcalls, ncalls)
      ks = [t[2] for t in trace[1:]]
      st.append("%s|x%d|%d|%s" % (sorted((k, v) for k, v in c.items() if not k.startswith("_")), xi, phase, ks))
      digests.append(common.digest(y))
      evals += x.size
      if phase == 0:
        if not np.array_equal(y, y_twin):
          i = np.unravel_index(int(np.flatnonzero((y != y_twin).reshape(-1))[0]), x.shape)
          viol_add("inference-equals-deterministic", "inference x=%r: %r but the deterministic counterpart gives %r" % (
              float(x[i]), float(y[i]), float(y_twin[i])), "")
        continue
      sb = np.broadcast_to(s, x.shape).astype(np.float64)
      codes = (0.0, 1.0) if (cls == "binary" and c["use_01"]) else (
          (-1.0, 1.0) if "binary" in cls else (-1.0, 0.0, 1.0))
      tol = common.f32_ulp(np.maximum(np.abs(x), np.maximum(np.abs(y), sb.astype(np.float32))))
      member = np.zeros(x.shape, dtype=bool)
      for cd in codes:
        member |= np.abs(y.astype(np.float64) - np.float32(sb * cd).astype(np.float64)) <= tol
      if not member.all():
        i = np.unravel_index(int(np.flatnonzero(~member.reshape(-1))[0]), x.shape)
        viol_add("training:code-set", "x=%r -> %r is not scale %r times a code of %r (answers %r)" % (
            float(x[i]), float(y[i]), float(sb[i]), codes, ks), "")
      if xi == 2 and not isinstance(c["alpha"], str) and "binary" in cls and cls == "binary":
        # inputs that already are codes (+-1) come back unchanged for every answer
        want = x if not c["use_01"] else (x + 1) / 2
        want = want * (1.0 if c["alpha"] is None else c["alpha"])
        if not np.array_equal(y, want.astype(np.float32)):
          viol_add("training:codes-unchanged", "code inputs %r were changed to %r (answers %r)" % (
              x.reshape(-1)[:4].tolist(), y.reshape(-1)[:4].tolist(), ks), "")
      outcomes.add(common.digest(y))
  return dict(execs=execs, evals=evals, states=st, nontrivial=int(len(outcomes) > 1), digests=digests,
              maxcalls=maxcalls, n=int(sum(x.size for x in xs)), exhaustive=not capped)


def run_free(c, tf, viol_add):
  """Supporting pass: the real generator, four seeds, membership only."""
  if c["fam"] == "sign":
    return 0
  mdl = model_for(c)
  x = mdl.x()
  n = 0
  for s in range(c["_seed"], c["_seed"] + 4):
    tf.random.set_seed(1234 + s)
    tf.keras.backend.set_learning_phase(1)
    try:
      y = np.asarray(mdl.make(True)(tf.constant(x)), dtype=np.float64)
    finally:
      tf.keras.backend.set_learning_phase(0)
    n += x.size
    if c["fam"] == "po2":
      ok = np.frexp(np.abs(y))[0] == 0.5
      bad = ~ok
    else:
      us = [np.zeros(x.shape, dtype=np.float32)] * 2
      _, lo_v, hi_v = mdl.expected(x, us)
      bad = ~((y == lo_v) | (y == hi_v))
    if bad.any():
      i = int(np.flatnonzero(bad)[0])
      viol_add("free-run:not-adjacent-code", "real RNG seed %d: x=%r -> %r" % (s, float(x[i]), float(y[i])), "")
  return n


def run_case(c):
  tf = common.tf_init()
  common.reset_keras()
  viol = []

  def viol_add(clause, what, tag):
    if len(viol) < 10:
      viol.append({"key": "%s:%s%s" % (c["cls"], clause, (":" + tag) if tag else ""),
                   "what": "%s %s: %s" % (c["cls"], clause, what), "detail": {"case": c}})
  r = run_sign(c, tf, viol_add) if c["fam"] == "sign" else run_rounding(c, tf, viol_add)
  free = run_free(c, tf, viol_add)
  common.reset_keras()
  return {"evals": r["evals"] + free, "transitions": r["execs"], "nontrivial": r["nontrivial"],
          "state_keys": [common.digest(s) for s in r["states"]],
          "digest": common.digest(*r["digests"]), "violations": viol, "traces": r["execs"],
          "info": {"executions": r["execs"], "free_run_elements": free,
                   "deviation_bounded_cases": 0 if r["exhaustive"] else 1},
          "sample": {"case": {k: v for k, v in c.items() if not k.startswith("_")}, "alphabet_size": r["n"],
                     "rng_calls_per_execution": r["maxcalls"], "executions": r["execs"],
                     "choice_tree_exhausted": r["exhaustive"]}}

# (appended: sub-lattices added after the seeded waves; kept out of the original RULE text for readability)
RULE = RULE + '; plus: wide-exponent po2 formats on tiny inputs (float32 neighbours just below powers of two); a call that requests fewer random tensors than the format has roundings is a violation; phase histories (train/infer, infer/train, train/infer/train) on ONE quantizer object with draws below / above every threshold'
