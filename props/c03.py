"""C03 - power-of-two quantizers emit signed powers of two with in-range exponents.

Kernel L: full lattice (class x bits x max_value x slope x log2_rounding) x exponent alphabet on the
real quantizers; the exponent interval, sign rule and log2-nearest / floor exponent are recomputed
independently from the constructor arguments (float64 log2 of the exact float32 magnitude, with a
tie zone of 8 float32 ulps of log2 around each breakpoint because TF takes the logarithm in float32).
"""
import numpy as np

from mc import common

ID = "C03"
TITLE = "power-of-two quantizers emit signed powers of two with in-range exponents"
TECHNIQUE = ("exhaustive enumeration of the full configuration lattice x exponent breakpoint alphabet "
             "on the real quantizers against an independent float64 exponent reference model")
RULE = ("cases = every (class, bits, max_value, negative_slope, log2_rounding) of the lattice; each runs "
        "the real quantizer on the sorted exponent alphabet (2^e, sqrt2*2^e +-3ulp, 1.25/1.75*2^e, "
        "max_value, epsilon, zero, denormals; both signs) and on its own output; evaluations = "
        "element-level decisions; non-trivial = outputs use >= 2 exponents (or the format has only one), "
        "hit both exponent bounds and some input was moved")
ASSUMPTIONS = [
    "TensorFlow eager kernels and tf_keras are trusted",
    "bits 2..8; max_value is None or a power of two representable in the format (2^min_exp <= max_value); "
    "quadratic_approximation=False; no stochastic rounding (C08)",
    "|x| < 2^22 * |q(x)| element-wise (beyond that the straight-through form x + (q - x) is not exact in "
    "float32 - the same horizon the statement of C01 makes explicit); exponent interval within float32's "
    "normal range (-126..127)",
    "tie zone: 8 float32 ulps of log2|x| around each rounding breakpoint accept either neighbour exponent",
]

MAXV = [None, 0.125, 0.25, 0.5, 1.0, 2.0, 4.0, 8.0, 16.0]


def bound(tier):
  return {"bits": [2, 8], "max_value": MAXV, "slopes": [0, 0.5, 0.25, 0.125],
          "log2_rounding": ["rnd", "floor"], "lattice": "full product",
          "float32_sweep": "none" if tier == "quick" else "all 2^32 bit patterns (normal, inside the float32 horizon) for "
                           "%d configurations, 16 shards each" % len(SWEEP_CONFIGS)}


def worker_init():
  common.tf_init()


def spec(cfg):
  """Exponent interval as the statement defines it (sign bit of the exponent reused when max_value<=1)."""
  mv = cfg["max_value"]
  need = 1 if (mv is None or mv > 1) else 0
  if cfg["cls"] == "quantized_po2":
    eff = cfg["bits"] - 1 - need
  else:
    eff = cfg["bits"] - need
  return -2 ** eff, 2 ** eff - 1


def enumerate_cases(tier, seed):
  out = []
  for bits in range(2, 9):
    for cls in ("quantized_po2", "quantized_relu_po2"):
      for mv in MAXV:
        for mode in ("rnd", "floor"):
          for slope in ((0.0,) if cls == "quantized_po2" else (0.0, 0.5, 0.25, 0.125)):
            cfg = dict(cls=cls, bits=bits, max_value=mv, log2_rounding=mode, slope=slope)
            mn, mx = spec(cfg)
            if mn != int(mn) or (mv is not None and mv < 2.0 ** mn):
              continue
            if mn < -126 or mx > 127:   # exponent interval must fit float32's normal range
              continue
            out.append(cfg)
  base = list(out)
  # use_stochastic_rounding=True in the INFERENCE phase: rounding is deterministic there, every clause holds unchanged
  for cfg in base:
    if cfg["bits"] in ((3, 5) if tier == "quick" else (2, 3, 4, 5, 6)):
      out.append(dict(cfg, stoch_inf=True))
  # other quantizer objects built and used BEFORE the one under test (quadratic approximation, another max_value,
  # neighbouring bit widths): quantizers are independent objects, nothing one of them does may change another
  for cfg in base:
    if cfg["bits"] not in (3, 4, 5) or cfg["max_value"] not in (None, 2.0) or cfg["slope"] not in (0.0, 0.25):
      continue
    b = cfg["bits"]
    for pre in ([dict(cls="quantized_po2", bits=b, max_value=None, log2_rounding="rnd", slope=0.0, quadratic=True)],
                [dict(cls="quantized_relu_po2", bits=b, max_value=None, log2_rounding="rnd", slope=0.0, quadratic=True)],
                [dict(cls="quantized_relu_po2", bits=b - 1, max_value=None, log2_rounding="rnd", slope=0.0, quadratic=True),
                 dict(cls="quantized_po2", bits=b + 1, max_value=None, log2_rounding="floor", slope=0.0, quadratic=True)],
                [dict(cls=cfg["cls"], bits=b, max_value=0.5, log2_rounding=cfg["log2_rounding"], slope=cfg["slope"])]):
      out.append(dict(cfg, pre=pre))
  if tier == "thorough":
    for cfg in SWEEP_CONFIGS:
      for sh in range(SHARDS):
        out.append(dict(sweep=sh, **cfg))
  return out


SWEEP_CONFIGS = [
    dict(cls="quantized_po2", bits=4, max_value=None, log2_rounding="rnd", slope=0.0),
    dict(cls="quantized_po2", bits=5, max_value=2.0, log2_rounding="rnd", slope=0.0),
    dict(cls="quantized_relu_po2", bits=4, max_value=None, log2_rounding="rnd", slope=0.0),
    dict(cls="quantized_relu_po2", bits=3, max_value=4.0, log2_rounding="floor", slope=0.5),
]
SHARDS = 16


def run_sweep(cfg):
  """Complete float32 sweep of one shard of 2^28 bit patterns (see C02.run_sweep): every finite input inside
  the float32 horizon of the straight-through form is decided (power of two, exponent range, sign, admissible
  exponent, max_value, monotone in bit-pattern order)."""
  tf = common.tf_init()
  common.reset_keras()
  sh = cfg["sweep"]
  base = {k: v for k, v in cfg.items() if k != "sweep"}
  mn, mx = spec(base)
  mv = base["max_value"]
  q = make(base)
  viol = []

  def bad(clause, what, **d):
    if len(viol) < 5 and not any(v["key"].endswith(clause) for v in viol):
      viol.append({"key": "%s:sweep:%s" % (base["cls"], clause), "what": "%s float32 sweep %s: %s" % (base["cls"], clause, what),
                   "detail": dict(cfg=cfg, **d)})
  BL = 1 << 22
  start = sh << 28
  negative = sh >= 8
  decided = 0
  prev = None
  h = 0
  for b in range((1 << 28) // BL):
    pats = np.arange(start + b * BL, start + (b + 1) * BL, dtype=np.uint64).astype(np.uint32)
    x = pats.view(np.float32)
    fin = np.isfinite(x)
    if not fin.any():
      continue
    x = x[fin]
    x64 = x.astype(np.float64)
    v, sgn = magnitude(base, x64)
    lo, hi = admissible_exp(base, v)
    keep = (np.abs(x64) < 2.0 ** 22 * 2.0 ** lo) & (np.abs(x64) >= float(np.finfo(np.float32).tiny))
    if not keep.any():
      continue
    x, x64, v, sgn, lo, hi = x[keep], x64[keep], v[keep], sgn[keep], lo[keep], hi[keep]
    y64 = np.asarray(q(tf.constant(x)), dtype=np.float64)
    decided += int(x.size)
    mant, ex = np.frexp(np.abs(y64))
    e = ex - 1
    ok = np.isfinite(y64) & (y64 != 0) & (mant == 0.5) & (e >= mn) & (e <= mx) & (np.sign(y64) == sgn) & (e >= lo) & (e <= hi)
    if mv is not None:
      ok &= np.abs(y64) <= mv
    if not ok.all():
      i = int(np.flatnonzero(~ok)[0])
      bad("output", "x=%r -> %r; admissible exponents [%d,%d] within [%d,%d]" % (float(x[i]), float(y64[i]), lo[i], hi[i], mn, mx),
          x=float(x[i]))
    seq = y64 if not negative else -y64       # in bit-pattern order |x| ascends; the output (resp. its negative) must not decrease
    if base["cls"] == "quantized_relu_po2" and negative and not base["slope"]:
      seq = -np.abs(y64) * 0                  # constant smallest code for negatives: nothing to order
    dec = np.diff(seq) < 0
    if dec.any():
      excuse = (hi[1:] >= lo[:-1]) & (lo[1:] <= hi[:-1]) & (np.maximum(hi[1:], hi[:-1]) > np.minimum(lo[1:], lo[:-1]))
      dec = dec & ~excuse
      if dec.any():
        i = int(np.flatnonzero(dec)[0])
        bad("monotone", "output magnitude decreases between adjacent float32 inputs near x=%r" % float(x[i]))
    h = (h * 1000003 + int(np.sum(e[:: 4099])) + int(x.size)) % (1 << 61)
  return {"evals": decided, "transitions": (1 << 28) // BL, "nontrivial": int(decided > 0),
          "state": "sweep:%r:%d" % (sorted(base.items(), key=lambda kv: kv[0]), sh), "digest": common.digest(h, decided),
          "violations": viol, "traces": decided, "info": {"sweep_inputs_decided": decided},
          "sample": {"sweep_config": base, "shard": sh, "inputs_decided": decided}}


def make(cfg, **extra):
  from qkeras import quantizers as Q  # pylint: disable=import-outside-toplevel
  if cfg["cls"] == "quantized_po2":
    return Q.quantized_po2(bits=cfg["bits"], max_value=cfg["max_value"],
                           log2_rounding=cfg["log2_rounding"], **extra)
  return Q.quantized_relu_po2(bits=cfg["bits"], max_value=cfg["max_value"],
                              negative_slope=cfg["slope"], log2_rounding=cfg["log2_rounding"], **extra)


def alphabet(cfg):
  mn, mx = spec(cfg)
  mv = cfg["max_value"]
  a = common.a_po2(mn, mx, mv)
  if cfg["slope"]:
    a = np.unique(np.concatenate([a, (a / np.float32(cfg["slope"])).astype(np.float32)]))
  top = 2.0 ** mx if mv is None else min(2.0 ** mx, mv)
  a = a[np.abs(a.astype(np.float64)) < top * 2.0 ** 23]
  return a


def magnitude(cfg, x64):
  """The non-negative value whose log2 is rounded, and the sign of the output."""
  if cfg["cls"] == "quantized_po2":
    return np.abs(x64), np.where(x64 < 0, -1.0, 1.0)
  if not cfg["slope"]:
    return np.maximum(x64, 0.0), np.ones_like(x64)
  neg = x64 < 0
  return np.where(neg, -x64 * cfg["slope"], x64), np.where(neg, -1.0, 1.0)


def admissible_exp(cfg, v):
  mn, mx = spec(cfg)
  mv = cfg["max_value"]
  v32 = v.astype(np.float32)
  small = v32 < np.float32(1e-7)
  v2 = np.where(small, 1.0, v)
  if mv is not None:
    v2 = np.where(v2 >= mv, mv, v2)
  L = np.log2(v2)
  tau = 8 * common.f32_ulp(np.maximum(1.0, np.abs(L)))
  if cfg["log2_rounding"] == "rnd":
    lo, hi = np.ceil(L - 0.5 - tau), np.floor(L + 0.5 + tau)
  else:
    lo, hi = np.floor(L - tau), np.floor(L + tau)
  lo, hi = np.clip(lo, mn, mx), np.clip(hi, mn, mx)
  lo = np.where(small, mn, lo)
  hi = np.where(small, mn, hi)
  return lo, hi


def run_case(cfg):
  if "sweep" in cfg:
    return run_sweep(cfg)
  tf = common.tf_init()
  common.reset_keras()
  mn, mx = spec(cfg)
  mv = cfg["max_value"]
  x = alphabet(cfg)
  x64 = x.astype(np.float64)
  # float32 horizon of the straight-through form x + (q - x): it is exact only while
  # |x| < 2^22 * |q(x)|; elements beyond it (tiny codes under a much larger sub-epsilon input, or
  # huge inputs) are outside the bounded claim, exactly like "below 2^24 steps" in C01
  v0, _ = magnitude(cfg, x64)
  lo0, _ = admissible_exp(cfg, v0)
  keep = np.abs(x64) < 2.0 ** 22 * 2.0 ** lo0
  x, x64 = x[keep], x64[keep]
  viol = []
  # signature tags are clause specific: only the option that selects the failing branch
  tagmap = {"idempotent": "floor" if cfg["log2_rounding"] == "floor" else "",
            "min()": "leaky" if cfg["slope"] else "", "max()": "leaky" if cfg["slope"] else "",
            "floor-exponent": "", "nearest-exponent": ""}

  variant = ":stochastic-inference" if cfg.get("stoch_inf") else (":after-other-quantizers" if cfg.get("pre") else "")

  # the variants re-decide the exponent clauses and add a differential clause (same outputs as the plain object); the
  # clauses about min()/max()/re-quantization do not depend on the variant and are decided by the plain cases
  skip = {"idempotent", "min()", "max()"} if variant else set()

  def bad(clause, what, **detail):
    tags = tagmap.get(clause, "")
    if clause in skip:
      return
    if len(viol) < 8:
      viol.append({"key": "%s:%s%s%s" % (cfg["cls"], clause, (":" + tags) if tags else "", variant),
                   "what": "%s %s%s: %s" % (cfg["cls"], clause, variant.replace(":", " [") + ("]" if variant else ""), what),
                   "detail": dict(cfg=cfg, **detail)})

  y_plain = np.asarray(make(cfg)(tf.constant(x)), dtype=np.float32) if variant else None
  for pc in cfg.get("pre", []):
    pq = make(pc, **({"quadratic_approximation": True} if pc.get("quadratic") else {}))
    pq(tf.constant(x))
  q = make(cfg, **({"use_stochastic_rounding": True} if cfg.get("stoch_inf") else {}))
  y = np.asarray(q(tf.constant(x)), dtype=np.float32)
  if variant and not np.array_equal(y, y_plain):
    i = int(np.flatnonzero(y != y_plain)[0])
    bad("differs-from-plain", "x=%r -> %r, the plain quantizer of the same configuration gave %r" % (float(x[i]), float(y[i]), float(y_plain[i])))
  y64 = y.astype(np.float64)
  evals = 0
  finite = np.isfinite(y64) & (y64 != 0)
  evals += x.size
  if not finite.all():
    i = int(np.flatnonzero(~finite)[0])
    bad("power-of-two", "x=%r -> %r" % (float(x[i]), float(y[i])), x=float(x[i]), y=float(y[i]))
    return {"evals": evals, "nontrivial": 0, "state": repr(sorted(cfg.items())),
            "digest": common.digest(y), "violations": viol}
  mant, ex = np.frexp(np.abs(y64))
  e = ex - 1
  notp = mant != 0.5
  if notp.any():
    i = int(np.flatnonzero(notp)[0])
    bad("power-of-two", "x=%r -> %r is not +-2^e" % (float(x[i]), float(y[i])), x=float(x[i]), y=float(y[i]))
  oor = (e < mn) | (e > mx)
  evals += x.size
  if oor.any():
    i = int(np.flatnonzero(oor)[0])
    bad("exponent-range", "x=%r -> 2^%d outside [%d,%d]" % (float(x[i]), e[i], mn, mx),
        x=float(x[i]), y=float(y[i]), e=int(e[i]))
  v, sgn = magnitude(cfg, x64)
  # float32 denormals are flushed to zero by TensorFlow: for |x| < FLT_MIN either sign is accepted
  wrong_sign = (np.sign(y64) != sgn) & (np.abs(x64) >= float(np.finfo(np.float32).tiny))
  evals += x.size
  if wrong_sign.any():
    i = int(np.flatnonzero(wrong_sign)[0])
    bad("sign", "x=%r -> %r" % (float(x[i]), float(y[i])), x=float(x[i]), y=float(y[i]))
  lo, hi = admissible_exp(cfg, v)
  bad_e = (e < lo) | (e > hi)
  evals += x.size
  if bad_e.any():
    i = int(np.flatnonzero(bad_e)[0])
    clause = "zero/epsilon" if v[i] < 1e-7 else ("nearest-exponent" if cfg["log2_rounding"] == "rnd"
                                                 else "floor-exponent")
    bad(clause, "x=%r -> 2^%d, admissible [%d,%d]" % (float(x[i]), e[i], lo[i], hi[i]),
        x=float(x[i]), y=float(y[i]), e=int(e[i]), lo=int(lo[i]), hi=int(hi[i]))
  if mv is not None:
    evals += x.size
    if (np.abs(y64) > mv).any():
      i = int(np.flatnonzero(np.abs(y64) > mv)[0])
      bad("max_value", "x=%r -> %r exceeds max_value %r" % (float(x[i]), float(y[i]), mv),
          x=float(x[i]), y=float(y[i]))
  # monotone on each sign (x sorted); decreases inside one tie zone are excused
  for name, sel in (("neg", x64 < 0), ("pos", x64 >= 0)):
    ys, es, los, his = y64[sel], e[sel], lo[sel], hi[sel]
    sg = np.sign(ys)
    dec = np.diff(ys) < 0
    evals += int(dec.size)
    if dec.any():
      # exponent order on this sign: for negative outputs a larger exponent is a smaller value
      excuse = (his[1:] >= los[:-1]) & (los[1:] <= his[:-1]) & (sg[1:] == sg[:-1]) & \
               (es[:-1] >= np.minimum(los[:-1], los[1:])) & (es[:-1] <= np.maximum(his[:-1], his[1:])) & \
               (es[1:] >= np.minimum(los[:-1], los[1:])) & (es[1:] <= np.maximum(his[:-1], his[1:])) & \
               (np.maximum(his[:-1], his[1:]) > np.minimum(los[:-1], los[1:]))
      dec = dec & ~excuse
      if dec.any():
        i = int(np.flatnonzero(dec)[0])
        xs = x[sel]
        bad("monotone", "q(%r)=%r > q(%r)=%r" % (float(xs[i]), float(ys[i]), float(xs[i + 1]), float(ys[i + 1])),
            x0=float(xs[i]), x1=float(xs[i + 1]))
  if not cfg["slope"]:
    y2 = np.asarray(q(tf.constant(y)), dtype=np.float32)
    evals += y.size
    if not np.array_equal(y2, y):
      i = int(np.flatnonzero(y2 != y)[0])
      bad("idempotent", "q(q(x)) != q(x): x=%r q=%r qq=%r" % (float(x[i]), float(y[i]), float(y2[i])),
          x=float(x[i]), y=float(y[i]), yy=float(y2[i]))
  qmin, qmax = float(np.min(np.asarray(q.min(), dtype=np.float64))), float(np.max(np.asarray(q.max(), dtype=np.float64)))
  if y64.min() < qmin:
    bad("min()", "output %r below min()=%r" % (float(y64.min()), qmin))
  if y64.max() > qmax:
    bad("max()", "output %r above max()=%r" % (float(y64.max()), qmax))
  exps = np.unique(e)
  nontrivial = int((len(exps) > 1 or mn == mx) and exps.min() == mn and bool(np.any(y64 != x64)))
  return {"evals": evals, "transitions": 1 if cfg["slope"] else 2, "nontrivial": nontrivial,
          "state": repr(sorted((k, repr(v)) for k, v in cfg.items())), "digest": common.digest(y, qmin, qmax), "violations": viol,
          "traces": int(x.size),
          "sample": {"cfg": cfg, "exp_interval": [mn, mx], "alphabet_size": int(x.size),
                     "distinct_exponents": int(len(exps))}}

# (appended: sub-lattices added after the seeded waves; kept out of the original RULE text for readability)
RULE = RULE + '; plus: use_stochastic_rounding=True in the inference phase; cases preceded by the construction and use of other po2 quantizers (quadratic approximation, other max_value, neighbouring widths), judged clause by clause and against the plain object; thorough: complete float32 sweeps'
