"""C19 - qtools operation counts are the true MAC counts and energy totals add up.

C19a (kernel L, geometry lattice): for every counted layer class and every geometry within the deviation
bound, the real layer object is built and handed to the real get_operation_count(); the reference is an
explicit loop nest over output positions and kernel taps (no closed formula; output extents are recomputed
from stride / padding / dilation independently of Keras, and cross-checked against Keras).
C19b (kernel P): small quantized models x memory options: QTools(...).pe() energy dictionaries are recomputed
independently from the reported types, counts and tensor sizes; totals and extract_energy_sum must add up.
"""
import itertools
import json

import numpy as np

from mc import common

ID = "C19"
TITLE = "qtools operation counts are the true MAC counts and energy totals add up"
TECHNIQUE = ("exhaustive enumeration of a deviation-bounded geometry lattice per counted layer class on real layer "
             "objects against an explicit loop-nest MAC reference; exhaustive enumeration of model programs x memory "
             "options against an independent re-implementation of the energy sums")
RULE = ("a: cases = (layer class, geometry) with at most k non-default geometry settings (k=2 quick, 3 thorough), "
        "invalid geometries (output extent <= 0, or refused by the stock Keras layer) dropped; b: cases = (program, "
        "memory option); evaluations = counts / energy entries compared; non-trivial = geometries with stride, padding "
        "or dilation effects on the output extent, resp. energy dictionaries with at least two non-zero entries")
ASSUMPTIONS = [
    "a MAC is counted for every (output position, kernel tap, input channel of the group, output channel), taps that "
    "fall on zero padding included (what a MAC array performs); pooling: one add per window element per output position; "
    "merge layers: one operation per output element",
    "channels_last; transposed convolutions and channels_first are outside the lattice (they do not run in this image)",
    "energy: the documented functions are re-implemented from qenergy.py's published tables; see C19b in DESIGN.md",
]


def bound(tier):
  return {"deviation_bound": 2 if tier == "quick" else 3,
          "classes": ["Dense", "QDense", "Conv1D", "QConv1D", "Conv2D", "QConv2D", "QConv2DBatchnorm",
                      "DepthwiseConv2D", "QDepthwiseConv2D", "AveragePooling2D", "QAveragePooling2D",
                      "GlobalAveragePooling2D", "QGlobalAveragePooling2D", "Add", "Concatenate"]}


def worker_init():
  common.tf_init()


CONV2D_AXES = {
    "kh": [3, 1, 2, 5], "kw": [3, 1, 2, 4], "sh": [1, 2, 3], "sw": [1, 2, 3], "padding": ["valid", "same"],
    "dil": [1, 2], "cin": [3, 1, 2, 4], "cout": [2, 1, 3, 4], "H": [6, 4, 5, 8], "W": [6, 4, 7, 8], "groups": [1, 2],
}
CONV1D_AXES = {
    "k": [3, 1, 2, 5], "s": [1, 2, 3], "padding": ["valid", "same", "causal"], "dil": [1, 2], "cin": [3, 1, 2, 4],
    "cout": [2, 1, 3, 4], "T": [6, 4, 5, 8],
}
DW_AXES = {
    "kh": [3, 1, 2, 5], "kw": [3, 1, 2, 4], "s": [1, 2, 3], "padding": ["valid", "same"], "dil": [1, 2],
    "cin": [3, 1, 2, 4], "dm": [1, 2, 3], "H": [6, 4, 5, 8], "W": [6, 4, 7, 8],
}
POOL_AXES = {
    "ph": [2, 1, 3], "pw": [2, 1, 3], "sh": [None, 1, 2, 3], "sw": [None, 1, 2, 3], "padding": ["valid", "same"],
    "c": [3, 1, 2, 4], "H": [6, 4, 5, 8], "W": [6, 4, 7, 8],
}
DENSE_AXES = {"n_in": [4, 1, 2, 7], "n_out": [3, 1, 2, 5], "use_bias": [True, False]}
GAP_AXES = {"c": [3, 1, 2, 4], "H": [6, 4, 5, 8], "W": [6, 4, 7, 8]}
MERGE_AXES = {"c": [3, 1, 4], "H": [4, 1, 5], "W": [4, 1, 6], "rank": [4, 2]}


def enumerate_cases(tier, seed):
  k = 2 if tier == "quick" else 3
  out = []
  for cls in ("Conv2D", "QConv2D", "QConv2DBatchnorm"):
    for g in common.dev_product(CONV2D_AXES, k):
      out.append(dict(sub="a", cls=cls, g=g))
  # transposed convolutions share the Conv2D branch of the counter but store their kernel as (kh, kw, c_out, c_in); stride 1
  # only (with a stride the count of "useful" multiplications is a matter of convention)
  for cls in ("Conv2DTranspose",):        # (QConv2DTranspose cannot be called in this image)
    for g in common.dev_product(CONV2D_AXES, k):
      if g["sh"] == 1 and g["sw"] == 1 and g["dil"] == 1 and g["groups"] == 1:
        out.append(dict(sub="a", cls=cls, g=g))
  for cls in ("Conv1D", "QConv1D"):
    for g in common.dev_product(CONV1D_AXES, k):
      out.append(dict(sub="a", cls=cls, g=g))
  for cls in ("DepthwiseConv2D", "QDepthwiseConv2D"):
    for g in common.dev_product(DW_AXES, k):
      out.append(dict(sub="a", cls=cls, g=g))
  for cls in ("AveragePooling2D", "QAveragePooling2D"):
    for g in common.dev_product(POOL_AXES, k):
      out.append(dict(sub="a", cls=cls, g=g))
  for cls in ("Dense", "QDense"):
    for g in common.dev_product(DENSE_AXES, None):
      out.append(dict(sub="a", cls=cls, g=g))
  for cls in ("GlobalAveragePooling2D", "QGlobalAveragePooling2D"):
    for g in common.dev_product(GAP_AXES, None):
      out.append(dict(sub="a", cls=cls, g=g))
  for cls in ("Add", "Concatenate", "Maximum"):
    for g in common.dev_product(MERGE_AXES, None):
      out.append(dict(sub="a", cls=cls, g=g))
  from props import c19b  # pylint: disable=import-outside-toplevel
  out += c19b.enumerate_cases(tier, seed)
  return out


def out_extent(n, k, s, padding, dil):
  ke = (k - 1) * dil + 1
  if padding == "valid":
    return (n - ke) // s + 1 if n >= ke else 0
  return -(-n // s)     # same / causal: ceil(n / s)


def ref_macs(cls, g):
  """Explicit loop nest.  Returns (count, output extents) or None when the geometry is empty."""
  if "Dense" in cls:
    c = 0
    for _ in range(g["n_in"]):
      for _ in range(g["n_out"]):
        c += 1
    return c, (g["n_out"],)
  if "Conv2DTranspose" in cls:
    oh = g["H"] if g["padding"] == "same" else g["H"] + g["kh"] - 1
    ow = g["W"] if g["padding"] == "same" else g["W"] + g["kw"] - 1
    c = 0
    for _ in range(oh):
      for _ in range(ow):
        for _ in range(g["kh"]):
          for _ in range(g["kw"]):
            c += g["cin"] * g["cout"]
    return c, (oh, ow, g["cout"])
  if "Conv2D" in cls and "Depthwise" not in cls:
    if g["cin"] % g["groups"] or g["cout"] % g["groups"]:
      return None
    oh = out_extent(g["H"], g["kh"], g["sh"], g["padding"], g["dil"])
    ow = out_extent(g["W"], g["kw"], g["sw"], g["padding"], g["dil"])
    if oh <= 0 or ow <= 0:
      return None
    c = 0
    for _ in range(oh):
      for _ in range(ow):
        for _ in range(g["kh"]):
          for _ in range(g["kw"]):
            c += (g["cin"] // g["groups"]) * g["cout"]
    return c, (oh, ow, g["cout"])
  if "Conv1D" in cls:
    ot = out_extent(g["T"], g["k"], g["s"], g["padding"], g["dil"])
    if ot <= 0:
      return None
    c = 0
    for _ in range(ot):
      for _ in range(g["k"]):
        c += g["cin"] * g["cout"]
    return c, (ot, g["cout"])
  if "Depthwise" in cls:
    oh = out_extent(g["H"], g["kh"], g["s"], g["padding"], g["dil"])
    ow = out_extent(g["W"], g["kw"], g["s"], g["padding"], g["dil"])
    if oh <= 0 or ow <= 0:
      return None
    c = 0
    for _ in range(oh):
      for _ in range(ow):
        for _ in range(g["kh"]):
          for _ in range(g["kw"]):
            c += g["cin"] * g["dm"]
    return c, (oh, ow, g["cin"] * g["dm"])
  if "Global" in cls:
    c = 0
    for _ in range(g["H"]):
      for _ in range(g["W"]):
        c += g["c"]
    return c, (g["c"],)
  if "Pooling" in cls:
    sh = g["sh"] or g["ph"]
    sw = g["sw"] or g["pw"]
    oh = out_extent(g["H"], g["ph"], sh, g["padding"], 1)
    ow = out_extent(g["W"], g["pw"], sw, g["padding"], 1)
    if oh <= 0 or ow <= 0:
      return None
    c = 0
    for _ in range(oh):
      for _ in range(ow):
        for _ in range(g["ph"]):
          for _ in range(g["pw"]):
            c += g["c"]
    return c, (oh, ow, g["c"])
  # merge layers: one operation per element of one input
  shape = (g["H"], g["W"], g["c"]) if g["rank"] == 4 else (g["c"],)
  return int(np.prod(shape)), shape


def build_layer(cls, g):
  tf = common.tf_init()
  import qkeras  # pylint: disable=import-outside-toplevel
  L = tf.keras.layers
  qb = "quantized_bits(4,0,1)"
  if cls in ("Dense", "QDense"):
    shape = (None, g["n_in"])
    layer = L.Dense(g["n_out"], use_bias=g["use_bias"]) if cls == "Dense" else qkeras.QDense(
        g["n_out"], use_bias=g["use_bias"], kernel_quantizer=qb, bias_quantizer=qb)
  elif cls in ("Conv2D", "QConv2D", "QConv2DBatchnorm"):
    shape = (None, g["H"], g["W"], g["cin"])
    kw = dict(filters=g["cout"], kernel_size=(g["kh"], g["kw"]), strides=(g["sh"], g["sw"]), padding=g["padding"],
              dilation_rate=g["dil"])
    if cls == "Conv2D":
      layer = L.Conv2D(groups=g["groups"], **kw)
    elif cls == "QConv2D":
      layer = qkeras.QConv2D(groups=g["groups"], kernel_quantizer=qb, bias_quantizer=qb, **kw)
    else:
      if g["groups"] != 1:
        return None, None
      layer = qkeras.QConv2DBatchnorm(kernel_quantizer=qb, bias_quantizer=qb, **kw)
  elif cls in ("Conv2DTranspose", "QConv2DTranspose"):
    shape = (None, g["H"], g["W"], g["cin"])
    kw = dict(filters=g["cout"], kernel_size=(g["kh"], g["kw"]), strides=(1, 1), padding=g["padding"])
    layer = L.Conv2DTranspose(**kw) if cls == "Conv2DTranspose" else qkeras.QConv2DTranspose(kernel_quantizer=qb, bias_quantizer=qb, **kw)
  elif cls in ("Conv1D", "QConv1D"):
    shape = (None, g["T"], g["cin"])
    kw = dict(filters=g["cout"], kernel_size=g["k"], strides=g["s"], padding=g["padding"], dilation_rate=g["dil"])
    layer = L.Conv1D(**kw) if cls == "Conv1D" else qkeras.QConv1D(kernel_quantizer=qb, bias_quantizer=qb, **kw)
  elif cls in ("DepthwiseConv2D", "QDepthwiseConv2D"):
    shape = (None, g["H"], g["W"], g["cin"])
    kw = dict(kernel_size=(g["kh"], g["kw"]), strides=g["s"], padding=g["padding"], dilation_rate=g["dil"],
              depth_multiplier=g["dm"])
    layer = L.DepthwiseConv2D(**kw) if cls == "DepthwiseConv2D" else qkeras.QDepthwiseConv2D(
        depthwise_quantizer=qb, bias_quantizer=qb, **kw)
  elif cls in ("AveragePooling2D", "QAveragePooling2D"):
    shape = (None, g["H"], g["W"], g["c"])
    st = None if g["sh"] is None and g["sw"] is None else (g["sh"] or g["ph"], g["sw"] or g["pw"])
    kw = dict(pool_size=(g["ph"], g["pw"]), strides=st, padding=g["padding"])
    layer = L.AveragePooling2D(**kw) if cls == "AveragePooling2D" else qkeras.QAveragePooling2D(**kw)
  elif cls in ("GlobalAveragePooling2D", "QGlobalAveragePooling2D"):
    shape = (None, g["H"], g["W"], g["c"])
    layer = L.GlobalAveragePooling2D() if cls == "GlobalAveragePooling2D" else qkeras.QGlobalAveragePooling2D()
  else:
    shape = (None, g["H"], g["W"], g["c"]) if g["rank"] == 4 else (None, g["c"])
    layer = getattr(L, cls)()
    inp = [tf.keras.Input(shape[1:]), tf.keras.Input(shape[1:])]
    layer(inp)
    return layer, [shape, shape]
  layer(tf.keras.Input(shape[1:]))
  return layer, shape


def tag_of(cls, g):
  t = []
  if g.get("groups", 1) > 1:
    t.append("groups>1")
  if g.get("dm", 1) > 1:
    t.append("depth_multiplier>1")
  return ":".join(t)


def run_a(case):
  tf = common.tf_init()
  from qkeras.qtools import qtools_util  # pylint: disable=import-outside-toplevel
  cls, g = case["cls"], case["g"]
  ref = ref_macs(cls, g)
  if ref is None:
    return {"evals": 0, "nontrivial": 0, "state": "invalid", "digest": "invalid", "violations": [],
            "info": {"invalid_geometries": 1}}
  if g.get("dil", 1) > 1 and max(g.get("sh", 1), g.get("sw", 1), g.get("s", 1)) > 1:
    return {"evals": 0, "nontrivial": 0, "state": "invalid", "digest": "invalid", "violations": [],
            "info": {"invalid_geometries": 1}}
  if "Depthwise" in cls and False:
    pass
  want, extents = ref
  viol = []
  try:
    layer, shape = build_layer(cls, g)
  except (ValueError, tf.errors.InvalidArgumentError) as e:
    # a geometry the stock Keras layer itself refuses is outside the lattice
    if not cls.startswith("Q"):
      return {"evals": 0, "nontrivial": 0, "state": "invalid", "digest": "invalid", "violations": [],
              "info": {"invalid_geometries": 1}}
    raise
  if layer is None:
    return {"evals": 0, "nontrivial": 0, "state": "invalid", "digest": "invalid", "violations": [],
            "info": {"invalid_geometries": 1}}
  sh0 = shape[0] if isinstance(shape, list) else shape
  keras_out = tuple(layer.compute_output_shape(shape))[1:]
  if cls not in ("Concatenate",) and tuple(keras_out) != tuple(extents):
    viol.append({"key": "harness:extent", "what": "reference output extent %r != Keras %r for %s %r" % (
        extents, keras_out, cls, g), "detail": {"case": case}})
  got = qtools_util.get_operation_count(layer, shape)
  if got != want:
    clause = "pooling" if "Pooling" in cls else ("merge" if cls in ("Add", "Concatenate", "Maximum") else "macs")
    t = tag_of(cls, g)
    viol.append({"key": "a:%s:%s%s" % (clause, cls.lstrip("Q").replace("Batchnorm", ""), (":" + t) if t else ""),
                 "what": "%s %r: get_operation_count = %d, the layer performs %d" % (cls, g, got, want),
                 "detail": {"case": case, "got": got, "want": want}})
  if cls in ("QDense", "QConv1D", "QConv2D", "QDepthwiseConv2D"):
    # the second reporter of the same number: estimate.extract_model_operations on a model holding the layer
    from qkeras import estimate  # pylint: disable=import-outside-toplevel
    layer2, shape2 = build_layer(cls, g)
    m = tf.keras.Model(layer2.input, layer2.output)
    ops = estimate.extract_model_operations(m)
    got2 = ops[layer2.name]["number_of_operations"]
    if int(got2) != want:
      t = tag_of(cls, g)
      viol.append({"key": "a:extract_model_operations:%s%s" % (cls.lstrip("Q"), (":" + t) if t else ""),
                   "what": "%s %r: extract_model_operations reports %d operations, the layer performs %d" % (cls, g, int(got2), want),
                   "detail": {"case": case, "got": int(got2), "want": want}})
  nontriv = int(any(g.get(k, 1) not in (1, None) for k in ("sh", "sw", "s", "dil")) or g.get("padding") == "same")
  return {"evals": 1, "transitions": 1, "nontrivial": nontriv, "state": "a:%s:%r" % (cls, sorted(g.items())),
          "digest": common.digest(got, want), "violations": viol, "traces": 1,
          "sample": {"sub": "a", "cls": cls, "geometry": g, "count": got, "reference": want}}


def run_case(case):
  common.tf_init()
  common.reset_keras()
  if case["sub"] == "a":
    return run_a(case)
  from props import c19b  # pylint: disable=import-outside-toplevel
  return c19b.run_case(case)

# (appended: sub-lattices added after the seeded waves; kept out of the original RULE text for readability)
RULE = RULE + '; the second reporter estimate.extract_model_operations is judged on the same geometries; b: 9 programs (incl. merge layers whose fan-in differs from their rank) x 24 memory options x a lattice of cost settings for extract_energy_sum / extract_energy_profile'
RULE = RULE + '; Conv2DTranspose (stride 1) in the count lattice'
