"""C04 - binary / ternary quantizers emit only scale*code with sign-correct codes and the
least-squares scale.

Kernel L over (configuration x rank/shape x tensor alphabet).  Reference model: codes predicted from
the input alone (binary, constant-alpha ternary), group membership recomputed independently from
(shape, scale_axis, elements_per_scale), least-squares optimum in float64.
"""
import numpy as np

from mc import common

ID = "C04"
TITLE = "binary/ternary quantizers emit only scale*code, sign-correct, least-squares scale"
TECHNIQUE = ("exhaustive enumeration of the option lattice x ranks x tensor-pattern alphabet on the real "
             "quantizers against an independent code / group-membership / least-squares reference model")
RULE = ("cases = every (class, options, rank, shape family) of the lattice; each runs the real quantizer on "
        "all 8 value patterns; evaluations = element- and group-level decisions; non-trivial = both code "
        "signs (and for ternary the zero code) occur and, for data-dependent scales, at least two groups "
        "received different scales")
ASSUMPTIONS = [
    "TensorFlow eager kernels and tf_keras are trusted; channels_last",
    "tensors of rank 1..4 with at most 128 elements; constant alphas are powers of two; no stochastic rounding (C08)",
    "y == scale*code is decided multiplicatively within 1 float32 ulp of max(|x|,|y|) (the straight-through form x+(q-x) rounds once at the magnitude of x); "
    "least-squares optimum compared at relative 2e-5 (float32 means, Keras epsilon in the denominator)",
    "auto_po2: log2 of the least-squares value within 1e-4 of a rounding midpoint accepts either neighbour",
    "float32 denormal inputs are not in the alphabet (TensorFlow flushes them; their sign is ambiguous)",
]


def bound(tier):
  return {"lattice": "full product" if tier == "thorough" else "deviation<=2 from defaults per rank",
          "ranks": [1, 2, 3, 4], "shape_families": ["(..,3,4)", "(..,4,8)"], "patterns": common.PATTERNS}


def worker_init():
  common.tf_init()


def _axes_for_rank(r):
  opts = [None] + list(range(r))
  if r >= 2:
    opts.append([0, 1])
  if r >= 3:
    opts.append([r - 2, r - 1])
  return opts


def _valid_binary(c, shape):
  auto = isinstance(c["alpha"], str)
  if not auto and (c["scale_axis"] is not None or c["eps"] is not None):
    return False
  if c["alpha"] != "auto_po2" and (c["min_po2"] is not None or c["max_po2"] is not None):
    return False
  if c["min_po2"] is not None and c["max_po2"] is not None and c["min_po2"] > c["max_po2"]:
    return False
  if c["eps"] is not None:
    sa = c["scale_axis"]
    if sa is None or len(shape) == 1:
      return False
    if isinstance(c["eps"], list) and not (isinstance(sa, list) and len(sa) == len(c["eps"])):
      return False
    axes = sa if isinstance(sa, list) else [sa]
    es = c["eps"] if isinstance(c["eps"], list) else [c["eps"]] * len(axes)
    if any(shape[a] % e for a, e in zip(axes, es)):
      return False
  if len(shape) == 1 and c["scale_axis"] is not None:
    return False
  return True


def enumerate_cases(tier, seed):
  k = None if tier == "thorough" else 2
  out = []
  for rank in (1, 2, 3, 4):
    for fam, shapes in (("A", common.SHAPES_A), ("B", common.SHAPES_B)):
      shape = shapes[rank]
      axes = {
          "use_01": [False, True],
          "alpha": [None, "auto", "auto_po2", 1.0, 0.5, 2.0],
          "scale_axis": _axes_for_rank(rank),
          "eps": [None, 1, 2, [2, 2]],
          "min_po2": [None, -2, 0, 2, -40],      # -40 / 40: bounds that are configured but do not bind
          "max_po2": [None, -2, 0, 2, 40],
      }
      for c in common.dev_product(axes, k, lambda c, s=shape: _valid_binary(c, s)):
        out.append(dict(cls="binary", rank=rank, fam=fam, **c))
      # combinations that only exist together (axis + elements_per_scale + auto alpha need 3 deviations)
      if k is not None:
        for alpha in ("auto", "auto_po2"):
          for sa in _axes_for_rank(rank)[1:]:
            for eps in (1, 2, [2, 2]):
              for u01 in (False, True):
                c = dict(use_01=u01, alpha=alpha, scale_axis=sa, eps=eps, min_po2=None, max_po2=None)
                if _valid_binary(c, shape):
                  out.append(dict(cls="binary", rank=rank, fam=fam, **c))
      for alpha in (None, "auto", "auto_po2", 1.0, 0.5, 2.0):
        for thr in (None, 0.1, 0.5, 1.0):
          for unr in (5, 1):
            if isinstance(alpha, str) and thr is not None:
              continue
            if not isinstance(alpha, str) and unr != 5:
              continue
            out.append(dict(cls="ternary", rank=rank, fam=fam, alpha=alpha, threshold=thr, unrolls=unr))
  # the stochastic classes in the INFERENCE phase (deterministic there): same clauses as binary / ternary
  for c in list(out):
    if c.get("scale_axis") is None and c.get("eps") is None and c.get("min_po2") is None and c.get("max_po2") is None \
        and not c.get("use_01") and c.get("threshold") is None and c.get("unrolls", 5) == 5:
      out.append(dict(c, stochastic=True))
  # history on the process-wide image data format: a quantizer is used while the format is channels_first, the format is
  # switched back, and only then the quantizer under test is built and used - it must follow the CURRENT format
  for c in list(out):
    if isinstance(c["alpha"], str) and c["rank"] >= 2 and c.get("scale_axis") is None and c.get("eps") is None \
        and c.get("min_po2") is None and c.get("max_po2") is None and c.get("threshold") is None:
      out.append(dict(c, after_channels_first=True))
      # ... and the quantizer used WHILE the format is channels_first: one scale per index of axis 0
      out.append(dict(c, data_format="channels_first"))
  seen, uniq = set(), []
  for c in out:
    key = repr(sorted(c.items(), key=lambda kv: kv[0]))
    if key not in seen:
      seen.add(key)
      uniq.append(c)
  for c in uniq:
    c["_seed"] = seed
  return uniq


def make(cfg):
  from qkeras import quantizers as Q  # pylint: disable=import-outside-toplevel
  if cfg.get("stochastic"):
    return Q.stochastic_binary(alpha=cfg["alpha"]) if cfg["cls"] == "binary" else Q.stochastic_ternary(alpha=cfg["alpha"])
  if cfg["cls"] == "binary":
    return Q.binary(use_01=cfg["use_01"], alpha=cfg["alpha"], scale_axis=cfg["scale_axis"],
                    elements_per_scale=cfg["eps"], min_po2_exponent=cfg["min_po2"],
                    max_po2_exponent=cfg["max_po2"])
  return Q.ternary(alpha=cfg["alpha"], threshold=cfg["threshold"], number_of_unrolls=cfg["unrolls"])


def _near(a, b, x=0.0, ulp_n=1):
  """|a-b| <= 1 float32 ulp of the largest magnitude that takes part in x + (-x + scale*code): the
  inner difference is rounded once at the magnitude of x."""
  a = np.asarray(a, dtype=np.float32)
  b = np.asarray(b, dtype=np.float32)
  tol = ulp_n * common.f32_ulp(np.maximum(np.maximum(np.abs(a), np.abs(b)), np.abs(np.asarray(x, dtype=np.float32))))
  return np.abs(a.astype(np.float64) - b.astype(np.float64)) <= tol


def check_ls(cfg, x64, codes, scale_b, gid, bad, pattern):
  """Scale clauses for data-dependent alpha: non-negative, one value per group, least-squares value,
  power of two inside the exponent bounds."""
  n = 0
  if not np.all(np.isfinite(scale_b)) or (scale_b < 0).any():
    bad("scale>=0", "scale has negative / non-finite entries (%s)" % pattern, pattern=pattern)
    return 1
  for g in np.unique(gid):
    m = gid == g
    sv = scale_b[m]
    n += 1
    if not np.all(sv == sv[0]):
      bad("scale-per-group", "scale not constant inside group %d (%s): %r" % (g, pattern, np.unique(sv)[:4].tolist()),
          pattern=pattern)
      continue
    sxc = float(np.sum(x64[m] * codes[m]))
    scc = float(np.sum(codes[m] * codes[m]))
    ls = sxc / scc if scc > 0 else 0.0
    s = float(sv[0])
    if cfg["alpha"] == "auto":
      if abs(s - ls) > 2e-5 * max(abs(ls), 1e-30) + 1e-37:
        bad("least-squares", "group %d (%s): scale %r != sum(x*c)/sum(c^2) = %r" % (g, pattern, s, ls),
            pattern=pattern, scale=s, ls=ls)
    else:
      if s <= 0 or np.frexp(s)[0] != 0.5:
        bad("po2-scale", "group %d (%s): scale %r is not a power of two" % (g, pattern, s), pattern=pattern)
        continue
      e = np.frexp(s)[1] - 1
      L = np.log2(ls * (1 - 1e-7) + 1e-7) if scc > 0 else np.log2(1e-7)
      lo, hi = np.ceil(L - 0.5 - 1e-4), np.floor(L + 0.5 + 1e-4)
      mn, mx = cfg.get("min_po2"), cfg.get("max_po2")
      if mn is not None:
        lo, hi = max(lo, mn), max(hi, mn)
      if mx is not None:
        lo, hi = min(lo, mx), min(hi, mx)
      if not lo <= e <= hi:
        bad("po2-scale", "group %d (%s): scale 2^%d, expected exponent in [%d,%d] (ls=%r)" % (
            g, pattern, e, lo, hi, ls), pattern=pattern, scale=s, ls=ls)
  return n


def run_case(cfg):
  tf = common.tf_init()
  common.reset_keras()
  seed = cfg.get("_seed", 0)
  shape = (common.SHAPES_A if cfg["fam"] == "A" else common.SHAPES_B)[cfg["rank"]]
  viol = []
  auto = isinstance(cfg["alpha"], str)

  def bad(clause, what, **detail):
    tag = ("auto" if auto else "const")
    if len(viol) < 8:
      viol.append({"key": "%s%s:%s:%s" % ("stochastic_" if cfg.get("stochastic") else "", cfg["cls"], clause, tag),
                   "what": "%s %s: %s" % (cfg["cls"], clause, what), "detail": dict(cfg=cfg, **detail)})

  evals = 0
  digests = []
  saw = set()
  scales_differ = False
  cf = cfg.get("data_format") == "channels_first"
  if cf:
    tf.keras.backend.set_image_data_format("channels_first")     # (reset_keras at the start of every case restores it)
  if cfg.get("after_channels_first"):
    K = tf.keras.backend
    K.set_image_data_format("channels_first")
    try:
      make(cfg)(tf.constant(common.tensor(shape, "grid7", seed)))
    finally:
      K.set_image_data_format("channels_last")
  for pattern in common.PATTERNS + ["ladder_a", "ladder_b"]:
    x = common.tensor(shape, pattern, seed)
    q = make(cfg)
    y = np.asarray(q(tf.constant(x)), dtype=np.float32)
    scale = q.scale
    scale = np.asarray(scale.numpy() if hasattr(scale, "numpy") else scale, dtype=np.float32)
    digests.append(common.digest(y, scale))
    x64 = x.astype(np.float64)
    if y.shape != x.shape or not np.all(np.isfinite(y)):
      bad("finite", "non-finite output or shape change (%s)" % pattern, pattern=pattern)
      continue
    try:
      scale_b = np.broadcast_to(scale, shape).astype(np.float64)
    except ValueError:
      bad("scale-shape", "scale shape %r does not broadcast to %r" % (scale.shape, shape), pattern=pattern)
      continue
    if cfg["cls"] == "binary":
      c = np.where(x64 < 0, -1.0, 1.0)
      if cfg["use_01"]:
        c = (c + 1.0) / 2.0
      allowed = (0.0, 1.0) if cfg["use_01"] else (-1.0, 1.0)
    elif not auto:
      thr = np.float32(0.33 if cfg["threshold"] is None else cfg["threshold"])
      c = np.where(np.abs(x) >= thr, np.sign(x64), 0.0)
      allowed = (-1.0, 0.0, 1.0)
    else:
      # ternary with a data-dependent scale: the code is recovered from y (multiplicatively)
      allowed = (-1.0, 0.0, 1.0)
      c = np.full(shape, np.nan)
      for code in (0.0, 1.0, -1.0):
        hit = _near(np.float32(scale_b * code), y, x) & np.isnan(c)
        c = np.where(hit, code, c)
      if np.isnan(c).any():
        i = np.unravel_index(int(np.flatnonzero(np.isnan(c).reshape(-1))[0]), shape)
        bad("code-set", "y=%r is not scale(%r)*{-1,0,1} at x=%r (%s)" % (
            float(y[i]), float(scale_b[i]), float(x[i]), pattern), pattern=pattern)
        continue
      # sign-correct, and zero exactly below a (data-derived) threshold inside every channel
      wrong = (c * np.sign(x64) < 0) & (scale_b > 0)
      if wrong.any():
        i = np.unravel_index(int(np.flatnonzero(wrong.reshape(-1))[0]), shape)
        bad("sign", "x=%r got code %r (%s)" % (float(x[i]), float(c[i]), pattern), pattern=pattern)
      gid_thr = common.group_ids(shape, 0 if cf else None, None) if len(shape) > 1 else np.zeros(shape, dtype=np.int64)
      for g in np.unique(gid_thr):
        m = (gid_thr == g) & (scale_b > 0)
        z, nz = np.abs(x64[m & (c == 0)]), np.abs(x64[m & (c != 0)])
        evals += 1
        if z.size and nz.size and z.max() > nz.min():
          bad("threshold", "channel %d (%s): |x|=%r coded 0 but |x|=%r coded +-1" % (g, pattern, z.max(), nz.min()),
              pattern=pattern)
    evals += x.size
    if not auto or cfg["cls"] == "binary":
      ok = _near(np.float32(scale_b.astype(np.float32) * c.astype(np.float32)), y, x)
      if not ok.all():
        i = np.unravel_index(int(np.flatnonzero(~ok.reshape(-1))[0]), shape)
        bad("scale*code", "x=%r -> %r, expected scale %r * code %r (%s)" % (
            float(x[i]), float(y[i]), float(scale_b[i]), float(c[i]), pattern),
            pattern=pattern, x=float(x[i]), y=float(y[i]))
    if not auto:
      want = 1.0 if cfg["alpha"] is None else float(cfg["alpha"])
      if not np.all(scale_b == want):
        bad("const-scale", "scale %r != alpha %r" % (np.unique(scale_b)[:3].tolist(), want), pattern=pattern)
    else:
      if len(shape) == 1:
        gid = np.arange(shape[0])
      elif cfg["cls"] == "binary":
        gid = common.group_ids(shape, 0 if (cf and cfg["scale_axis"] is None) else cfg["scale_axis"], cfg["eps"])
      else:
        gid = common.group_ids(shape, 0 if cf else None, None)
      evals += check_ls(cfg, x64, c, scale_b, gid, bad, pattern)
      if len(np.unique(scale_b)) > 1:
        scales_differ = True
    saw.update(np.unique(c[np.isfinite(c)]).tolist())
  need = {0.0, 1.0} if (cfg["cls"] == "binary" and cfg["use_01"]) else (
      {-1.0, 1.0} if cfg["cls"] == "binary" else {-1.0, 0.0, 1.0})
  nontrivial = int(need <= saw and (scales_differ or not auto))
  tf.keras.backend.set_image_data_format("channels_last")
  return {"evals": evals, "transitions": len(common.PATTERNS) + 2, "nontrivial": nontrivial,
          "state": repr(sorted(cfg.items(), key=lambda kv: kv[0])), "digest": common.digest(*digests),
          "violations": viol, "traces": len(common.PATTERNS),
          "sample": {"cfg": cfg, "shape": list(shape), "patterns": common.PATTERNS}}

# (appended: sub-lattices added after the seeded waves; kept out of the original RULE text for readability)
RULE = RULE + "; plus: two 'ladder' patterns (per-channel magnitudes 2^e, |e| in {12..15, 26, 30}); exponent bounds that do not bind; histories over the process-wide image data format (quantizer used under channels_first; and after switching back)"
RULE = RULE + '; stochastic_binary / stochastic_ternary in the inference phase'
