"""C16 - qtools multiplier output types represent every product of their operand types.

Model + conformance (DESIGN C16).  The model is the value-set denotation of mc/qtypes.py.
  conformance: for every operand type of at most 5 bits the set reachable by the REAL qkeras quantizer
               (executed on its breakpoint alphabet) must be contained in vals(type) -- the trace of the
               model replayed against the implementation;
  enumeration: every ordered pair of operand types (fixed signed/unsigned to 16 bits, po2 signed/unsigned,
               ternary, binary, binary 0/1, float): the REAL MultiplierFactory is asked for the output type and
               (a) the products of the extreme and smallest-magnitude operand values, and (b) for operand
               types of at most 5 bits ALL products, must be members of vals(output); the implementation kind
               must be the one the operand kinds call for.
"""
import numpy as np

from mc import common
from mc import qtypes

ID = "C16"
TITLE = "qtools multiplier output types represent every product of their operand types"
TECHNIQUE = ("explicit value-set model of qtools types, conformance-replayed against the real quantizers; "
             "exhaustive enumeration of all operand type pairs against the real MultiplierFactory with exact "
             "dyadic arithmetic, brute force over all value pairs for small types")
RULE = ("cases = weight operand types; each is paired with every input operand type; evaluations = products whose "
        "membership was decided; non-trivial = pairs whose output type is a finite set strictly larger than both "
        "operand sets or of another kind; conformance cases replay the model against the real quantizer")
ASSUMPTIONS = [
    "the denotation of a type: fixed point = two's complement of `bits` bits with bits-is_signed-int_bits fraction "
    "bits; po2 = exponents [-2^(n-1), min(2^(n-1)-1, ceil(log2 max_val))], n = bits - is_signed (qtools' documented rule)",
    "the one excused product is min(vals(w)) * min(vals(x)) when both are negative (most-negative x most-negative)",
    "a power-of-two typed result is assumed to carry a zero flag: a zero product (ternary / 0-1 operand) into a po2 "
    "output type is not judged",
    "fixed operand types to 16 bits, po2 to 8 bits; brute force over all value pairs for types of at most 5 bits "
    "(6 in the thorough tier)",
]

KINDS = ["fixed", "po2", "ternary", "binary", "binary01", "float"]
IMPL = {
    "fixed": ["mul", "shifter", "mux", "mux", "and", "mul"],
    "po2": ["shifter", "add", "mux", "mux", "and", "mul"],
    "ternary": ["mux", "mux", "mux", "mux", "and", "mul"],
    "binary": ["mux", "mux", "mux", "xor", "and", "mul"],
    "binary01": ["and", "and", "and", "and", "and", "mul"],
    "float": ["mul"] * 6,
}


def bound(tier):
  return {"fixed_bits": 16, "po2_bits": [2, 8], "brute_force_bits": 5 if tier == "quick" else 6,
          "operand_types": len(qtypes.operand_specs()), "pairs": len(qtypes.operand_specs()) ** 2}


def worker_init():
  common.tf_init()


def enumerate_cases(tier, seed):
  specs = qtypes.operand_specs()
  bf = 5 if tier == "quick" else 6
  cases = [dict(sub="pairs", w=list(s), bf=bf) for s in specs]
  for s in specs:
    if s[0] in ("qb", "qr", "po2", "rpo2") and s[1] > 5:
      continue
    if s[0] in ("float", "float16", "bernoulli"):     # bernoulli samples: no deterministic reachable set to replay
      continue
    cases.append(dict(sub="conformance", spec=list(s)))
  return cases


def _reachable(spec):
  """Set of outputs of the real quantizer on a breakpoint alphabet covering its whole range."""
  tf = common.tf_init()
  q = qtypes.make_qkeras(tuple(spec))
  k = spec[0]
  if k in ("qb", "qr"):
    bits, ib = spec[1], spec[2]
    step = 2.0 ** ib / 2.0 ** (bits - (1 if k == "qb" else 0))
    lo = -2 ** (bits - 1) if k == "qb" else 0
    hi = 2 ** (bits - 1) - 1 if k == "qb" else 2 ** bits - 1
    if k == "qb" and bits == 1:
      x = np.array([-3, -1, -0.5, 0, 0.5, 1, 3], dtype=np.float32)
    else:
      x = common.a_fix(step, lo, hi, big=False)
  elif k in ("po2", "rpo2"):
    x = common.a_po2(-40, 40, spec[2])
    x = x[np.abs(x) < 2.0 ** 20]
  else:
    x = np.array([-3, -1, -0.5, -0.33, -0.1, 0, 0.1, 0.33, 0.5, 1, 3], dtype=np.float32)
  y = np.asarray(q(tf.constant(x)), dtype=np.float64)
  return np.unique(y)


def run_conformance(case):
  spec = tuple(case["spec"])
  T = qtypes.make_type(spec)
  d = qtypes.den(T)
  viol = []
  got = _reachable(spec)
  ok = qtypes.contains(d, got)
  if not ok.all():
    bad = got[~ok]
    tag = "max_value<=1" if spec[0] in ("po2", "rpo2") and spec[2] is not None and spec[2] <= 1 else ""
    viol.append({"key": "conformance:%s%s" % (spec[0], (":" + tag) if tag else ""),
                 "what": "type %r (bits=%r int_bits=%r signed=%r max_val_po2=%r) does not describe its quantizer %r: the "
                         "quantizer emits %r which is not in %r" % (
                             T.name, T.bits, T.int_bits, T.is_signed, T.max_val_po2, spec, bad[:4].tolist(), d),
                 "detail": {"spec": list(spec), "outside": bad[:10].tolist()}})
  return {"evals": int(got.size), "transitions": 1, "nontrivial": int(got.size > 1), "state": "conf:%r" % (spec,),
          "digest": common.digest(got), "violations": viol, "traces": int(got.size),
          "sample": {"sub": "conformance", "spec": list(spec), "reachable": got[:8].tolist(), "model": repr(d)}}


def run_pairs(case):
  from qkeras.qtools.quantized_operators import multiplier_factory  # pylint: disable=import-outside-toplevel
  mf = multiplier_factory.MultiplierFactory()
  wspec = tuple(case["w"])
  bf = case["bf"]
  wT = qtypes.make_type(wspec)
  wd = qtypes.den(wT)
  wk = qtypes.kind_of(wT)
  viol, evals, nontriv = [], 0, 0
  outs = []

  def bad(clause, what, xspec):
    # one record per signature and case; `insts` names EVERY failing operand pair, so that a recorded finding is identified
    # by its exact set of pairs and the same signature on any other pair is still reported
    key = "%s:%sx%s" % (clause, wk, qtypes.kind_of(qtypes.make_type(tuple(xspec))))
    inst = "%s*%s" % ("/".join(map(str, wspec)), "/".join(map(str, xspec)))
    for v in viol:
      if v["key"] == key:
        v["insts"].append(inst)
        return
    viol.append({"key": key, "what": what, "detail": {"w": list(wspec), "x": list(xspec)}, "insts": [inst]})
  built = []

  for xspec in qtypes.operand_specs():
    xT = qtypes.make_type(xspec)
    xd = qtypes.den(xT)
    xk = qtypes.kind_of(xT)
    m = mf.make_multiplier(wT, xT)
    out = m.output
    od = qtypes.den(out)
    outs.append((m.implemented_as(), repr(od)))
    built.append((xspec, m, repr(od)))
    want_impl = IMPL[wk][KINDS.index(xk)]
    evals += 1
    if m.implemented_as() != want_impl:
      bad("implemented_as", "%r x %r is implemented as %r, the operand kinds call for %r" % (
          wspec, xspec, m.implemented_as(), want_impl), xspec)
    if wd.kind == "empty" or xd.kind == "empty":
      continue
    if wd.kind == "float" or xd.kind == "float":
      if od.kind != "float":
        bad("float-output", "%r x %r: a floating point operand gives non-float output %r" % (wspec, xspec, od), xspec)
      else:
        need = max(d.bits for d in (wd, xd) if d.kind == "float")
        if od.bits < need:
          # a product with the factor 1.0 is the other factor itself: the result format must hold every value of the
          # widest floating point operand
          bad("float-output-width", "%r x %r: %d-bit floating point output cannot hold the values of the %d-bit floating "
              "point operand" % (wspec, xspec, od.bits, need), xspec)
      continue
    if od.kind == "float":
      continue
    wmin, wmax, wl = qtypes.extremes(wd)
    xmin, xmax, xl = qtypes.extremes(xd)
    sets = ("ternary", "binary", "binary01", "sternary", "sbinary", "bernoulli")
    small = (wspec[0] in sets or wspec[1] <= bf) and (xspec[0] in sets or xspec[1] <= bf)
    if small:
      wv, xv = qtypes.enumerate_values(wd), qtypes.enumerate_values(xd)
      prods = np.multiply.outer(wv, xv).reshape(-1)
      ws = np.repeat(wv, len(xv))
      xs = np.tile(xv, len(wv))
    else:
      cand_w = [v for v in (wmin, wmax, wl, -wl) if qtypes.contains(wd, np.array([v]))[0]]
      cand_x = [v for v in (xmin, xmax, xl, -xl) if qtypes.contains(xd, np.array([v]))[0]]
      ws = np.repeat(np.array(cand_w), len(cand_x))
      xs = np.tile(np.array(cand_x), len(cand_w))
      prods = ws * xs
    excused = (ws == wmin) & (xs == xmin) & (wmin < 0) & (xmin < 0)
    if od.kind == "po2":
      excused |= prods == 0
    ok = qtypes.contains(od, prods) | excused
    evals += int(prods.size)
    if not ok.all():
      i = int(np.flatnonzero(~ok)[0])
      omin, omax, _ = qtypes.extremes(od)
      rel = "magnitude" if od.kind != "empty" and (abs(prods[i]) > max(abs(omin), abs(omax))) else "resolution"
      bad("product:" + rel, "%r x %r -> %s %r: product %r * %r = %r is not representable" % (
          wspec, xspec, m.implemented_as(), od, ws[i], xs[i], prods[i]), xspec)
    if not (qtypes.contains(od, np.array([0.0])).all() or od.kind in ("po2", "empty") or
            (wd.kind == "set" and 0.0 not in wd.values and xd.kind == "set" and 0.0 not in xd.values)):
      bad("zero", "%r x %r -> %r cannot represent zero" % (wspec, xspec, od), xspec)
    if qtypes.size(od) > max(qtypes.size(wd), qtypes.size(xd)) or od.kind != wd.kind:
      nontriv += 1
  # history clause: all multipliers above came from ONE factory; building a later one must not have changed the type an
  # earlier one reports (each multiplier owns its output type)
  for xspec, m, snap in built:
    evals += 1
    now = repr(qtypes.den(m.output))
    if now != snap:
      bad("multiplier-type-changed-later", "%r x %r: the multiplier reported %s when it was built and reports %s after other "
          "multipliers were built by the same factory" % (wspec, xspec, snap, now), xspec)
  return {"evals": evals, "transitions": len(outs), "nontrivial": nontriv, "state": "pairs:%r" % (wspec,),
          "digest": common.digest(outs), "violations": viol, "traces": 0,
          "sample": {"sub": "pairs", "weight_type": list(wspec), "weight_model": repr(wd),
                     "first_outputs": outs[:3]}}


def run_case(case):
  common.tf_init()
  return run_conformance(case) if case["sub"] == "conformance" else run_pairs(case)

# (appended: sub-lattices added after the seeded waves; kept out of the original RULE text for readability)
RULE = RULE + '; all multipliers of a case come from ONE factory and are re-read after the last one was built; a second floating point width (fp16); every failing operand pair is named so that findings are identified by their exact input sets'
