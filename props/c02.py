"""C02 - fixed-point quantization is the nearest-code projection (round, clip, monotone, idempotent).

Kernel L; same lattice / alphabets / driver as C01 (mc/fixedpoint.py), different oracle:
the reference model `admissible codes = {round-half-up, round-half-down}(surrogate(x)/unit)`
clipped to [lo,hi], evaluated in float64 (exact for the linear / ReLU / leaky formats).
"""
import numpy as np

from mc import common
from mc import fixedpoint as fp

ID = "C02"
TITLE = "fixed-point quantization is the nearest-code projection"
TECHNIQUE = ("exhaustive enumeration of configuration lattice x breakpoint alphabet on the real "
             "quantizers against an exact float64 nearest-code reference model; monotonicity on the "
             "sorted alphabet; idempotence by re-application")
RULE = ("cases = every configuration of the C01 lattice; each runs the real quantizer on its sorted "
        "breakpoint alphabet and, for the idempotent classes, again on its own output; evaluations = "
        "element-level decisions of the nearest-code / end-code / monotone / idempotent clauses; "
        "non-trivial = some input was rounded up, some rounded down and some clipped")
ASSUMPTIONS = [
    "TensorFlow eager kernels and tf_keras are trusted",
    "bits <= 6 (quick) / 8 (thorough); constant scales are powers of two; |x| < 2^24 steps",
    "piecewise-linear sigmoid/tanh surrogates: a tie zone of 4 float32 ulps of 1.0 around each breakpoint "
    "accepts either neighbour (TF evaluates the affine map in float32); real tanh/sigmoid: 16 ulps",
    "legacy quantized_bits(alpha=c) is specified as c*Q(x): the nearest code is decided on the unscaled grid",
]


def bound(tier):
  return {"max_bits": 6 if tier == "quick" else 8, "lattice": "full product",
          "float32_sweep": "none" if tier == "quick" else "all 2^32 bit patterns (finite, below the 2^24-step horizon) "
                           "for %d configurations, 16 shards each" % len(SWEEP_CONFIGS),
          "alphabet": "A_fix (see C01), sorted; adjacent pairs give the monotonicity obligations"}


def worker_init():
  common.tf_init()


SWEEP_CONFIGS = [
    dict(cls="quantized_bits", bits=4, integer=0, keep_negative=True, symmetric=1, alpha=None),
    dict(cls="quantized_bits", bits=8, integer=2, keep_negative=True, symmetric=0, alpha=None),
    dict(cls="quantized_bits", bits=3, integer=1, keep_negative=False, symmetric=0, alpha=None),
    dict(cls="quantized_linear", bits=6, integer=1, keep_negative=True, symmetric=1, alpha=None),
    dict(cls="quantized_relu", bits=4, integer=1, slope=0.0),
    dict(cls="quantized_relu", bits=6, integer=2, slope=0.25),
    dict(cls="quantized_tanh", bits=5, symmetric=0, mode="hard"),
    dict(cls="quantized_sigmoid", bits=4, symmetric=1, mode="hard"),
]
SHARDS = 16          # 2^28 float32 bit patterns each


def enumerate_cases(tier, seed):
  cases = fp.configs(6 if tier == "quick" else 8)
  for cfg in fp.configs(4 if tier == "quick" else 6):
    if cfg.get("alpha") in (None, 1.0) or "alpha" not in cfg:
      cases.append(dict(cfg, stoch_inf=True))
  # histories on ONE quantizer object: the documented modifiable attribute `symmetric` (and the layer hook
  # _set_trainable_parameter, which switches alpha=None to 'auto_po2' and symmetric on) changed after the object has
  # already been called; the object must then behave exactly like a fresh quantizer built with the final settings
  for cfg in fp.configs(4 if tier == "quick" else 6, classes=("quantized_bits", "quantized_linear")):
    if cfg["alpha"] not in (None, 1.0) or cfg["bits"] - int(bool(cfg["keep_negative"])) == 0:
      continue
    for hist in (["call", "symmetric=flip"], ["symmetric=flip"], ["call", "symmetric=flip", "call", "symmetric=flip"]):
      cases.append(dict(hist=hist, **cfg))
    if cfg["alpha"] is None:
      cases.append(dict(hist=["call", "layer-hook"], **cfg))
      cases.append(dict(hist=["layer-hook"], **cfg))
  if tier == "thorough":
    # complete float32 sweep: every bit pattern of every finite input below the 2^24-step horizon
    for cfg in SWEEP_CONFIGS:
      for sh in range(SHARDS):
        cases.append(dict(sweep=sh, **cfg))
  return cases


def run_sweep(cfg):
  """All 2^28 bit patterns of one shard (shards 0-7: positive floats ascending, 8-15: negative floats, magnitude
  ascending).  Every finite input below the horizon is decided: code membership, nearest / end code, monotone
  against its predecessor in bit-pattern order."""
  tf = common.tf_init()
  common.reset_keras()
  sh = cfg["sweep"]
  base = {k: v for k, v in cfg.items() if k != "sweep"}
  f = fp.fmt(base)
  q = fp.make(base)
  horizon = 2.0 ** 24 * min(f["step"], f.get("ustep", f["step"])) if f["kind"] in ("linear", "relu", "leaky") else np.inf
  viol = []

  def bad(clause, what, **d):
    if len(viol) < 5 and not any(v["key"].endswith(clause) for v in viol):
      viol.append({"key": "%s:sweep:%s" % (base["cls"], clause), "what": "%s float32 sweep %s: %s" % (base["cls"], clause, what),
                   "detail": dict(cfg=cfg, **d)})
  BL = 1 << 22
  start = sh << 28
  negative = sh >= 8
  decided = 0
  prev_y = None
  prev_c = None
  h = 0
  for b in range((1 << 28) // BL):
    pats = np.arange(start + b * BL, start + (b + 1) * BL, dtype=np.uint64).astype(np.uint32)
    x = pats.view(np.float32)
    keep = np.isfinite(x) & (np.abs(x.astype(np.float64)) < horizon)
    if not keep.any():
      continue
    x = x[keep]
    y = np.asarray(q(tf.constant(x)), dtype=np.float32)
    y64 = y.astype(np.float64)
    cmin, cmax, a = expected_interval(base, f, x.astype(np.float64))
    c = y64 / f["step"]
    ok = (c == np.round(c)) & (c >= cmin) & (c <= cmax)
    decided += int(x.size)
    if not ok.all():
      i = int(np.flatnonzero(~ok)[0])
      bad("nearest", "x=%r (bits 0x%08x) -> %r (code %r), admissible codes [%d,%d]" % (
          float(x[i]), int(x[i:i + 1].view(np.uint32)[0]), float(y[i]), float(c[i]), cmin[i], cmax[i]), x=float(x[i]))
    # monotone in input order: positive shards ascend, negative shards descend in value
    seq = c if not negative else -c
    dec = np.diff(seq) < 0
    if prev_c is not None and seq[0] < prev_c and not (fp.slack(f) > 0):
      dec = np.concatenate([[True], dec])
      seq_cmax = None
    if dec.any() and fp.slack(f) > 0:
      cm_lo, cm_hi = (cmin, cmax) if not negative else (-cmax, -cmin)
      n = min(len(dec), len(seq) - 1)
      excuse = (seq[:-1][:n] <= cm_hi[1:][:n]) & (seq[1:][:n] >= cm_lo[:-1][:n])
      dec = dec[-n:] & ~excuse
    if dec.any():
      i = int(np.flatnonzero(dec)[0])
      bad("monotone", "output decreases between adjacent float32 inputs near x=%r" % float(x[min(i, x.size - 1)]))
    prev_c = seq[-1]
    h = (h * 1000003 + int(np.sum(c[:: 4099]) * 16) + int(x.size)) % (1 << 61)
  return {"evals": decided, "transitions": (1 << 28) // BL, "nontrivial": int(decided > 0),
          "state": "sweep:%r:%d" % (sorted(base.items()), sh), "digest": common.digest(h, decided), "violations": viol,
          "traces": decided, "info": {"sweep_inputs_decided": decided},
          "sample": {"sweep_config": base, "shard": sh, "inputs_decided": decided}}


def _tags(cfg, f):
  t = []
  a = f.get("alpha", 1.0)
  if a != 1:
    t.append("alpha!=1")
  if f["sign"]:
    t.append("sign")
  if f["kind"] == "leaky":
    t.append("leaky")
  if f["kind"] in ("tanh", "sigmoid"):
    t.append(cfg["mode"])
  return ":".join(t)


def expected_interval(cfg, f, x):
  """[cmin, cmax] admissible output codes (in units of f['step']) per element."""
  a = fp.surrogate(f, x)
  t = a / f["runit"]
  s = fp.slack(f) / f["runit"]
  cmin = np.ceil(t - 0.5 - s)
  cmax = np.floor(t + 0.5 + s)
  return np.clip(cmin, f["lo"], f["hi"]), np.clip(cmax, f["lo"], f["hi"]), a


def run_history(cfg):
  """construct -> (call | mutate)* -> call: differential against a fresh object with the final settings."""
  tf = common.tf_init()
  common.reset_keras()
  hist = cfg["hist"]
  base = {k: v for k, v in cfg.items() if k != "hist"}
  x = np.unique(np.concatenate([fp.alphabet(dict(base, symmetric=0)), fp.alphabet(dict(base, symmetric=1))]))
  xs = [x, x.reshape(-1, 1) * np.array([[1.0, 0.5, 0.25]], dtype=np.float32)]
  q = fp.make(base)
  final = dict(base)
  viol = []
  for op in hist:
    if op == "call":
      for v in xs:
        q(tf.constant(v))
    elif op == "symmetric=flip":
      final["symmetric"] = 1 - int(final["symmetric"])
      q.symmetric = final["symmetric"]
    else:
      q._set_trainable_parameter()   # pylint: disable=protected-access
      if final["alpha"] is None:
        final["alpha"] = "auto_po2"
        final["symmetric"] = 1
  fresh = fp.make(final)
  evals = 0
  digests = []
  tag = "+".join(hist)
  for v in xs:
    y, w = np.asarray(q(tf.constant(v)), dtype=np.float32), np.asarray(fresh(tf.constant(v)), dtype=np.float32)
    evals += int(y.size)
    digests.append(common.digest(y))
    if not np.array_equal(y, w):
      i = int(np.flatnonzero((y != w).reshape(-1))[0])
      viol.append({"key": "%s:history:%s" % (cfg["cls"], "layer-hook" if "layer-hook" in hist else "symmetric"),
                   "what": "%s after %r emits %r at x=%r; a fresh quantizer with the final settings %r emits %r" % (
                       cfg["cls"], hist, float(y.reshape(-1)[i]), float(v.reshape(-1)[i]),
                       {k: final[k] for k in ("bits", "integer", "keep_negative", "symmetric", "alpha")}, float(w.reshape(-1)[i])),
                   "detail": {"cfg": cfg}})
      break
  for name in ("min", "max"):
    a, b = np.asarray(fp.to_f(getattr(q, name)())), np.asarray(fp.to_f(getattr(fresh, name)()))
    evals += 1
    if not np.array_equal(a, b) and not viol:
      viol.append({"key": "%s:history:%s()" % (cfg["cls"], name), "what": "%s after %r reports %s() = %r, a fresh quantizer with the "
                   "final settings reports %r" % (cfg["cls"], hist, name, a.tolist(), b.tolist()), "detail": {"cfg": cfg}})
  common.reset_keras()
  return {"evals": evals, "transitions": len(hist) + 1, "nontrivial": int("call" in hist),
          "state": "hist:%r" % sorted((k, repr(v)) for k, v in cfg.items()), "digest": common.digest(*digests), "violations": viol,
          "traces": 0, "sample": {"cfg": cfg, "history": hist, "final": {k: repr(v) for k, v in final.items()}}}


def run_case(cfg):
  if "sweep" in cfg:
    return run_sweep(cfg)
  if "hist" in cfg:
    return run_history(cfg)
  tf = common.tf_init()
  common.reset_keras()
  f = fp.fmt(cfg)
  x = fp.alphabet(cfg)          # sorted ascending
  viol = []
  tags = _tags(cfg, f)

  def bad(clause, what, **detail):
    if len(viol) < 8:
      viol.append({"key": "%s:%s%s" % (cfg["cls"], clause, (":" + tags) if tags else ""),
                   "what": "%s %s: %s" % (cfg["cls"], clause, what),
                   "detail": dict(cfg=cfg, **detail)})

  if cfg.get("stoch_inf"):
    # use_stochastic_rounding=True in the INFERENCE phase: rounding is deterministic there and every clause holds unchanged
    tags = (tags + ":" if tags else "") + "stochastic-inference"
    q = fp.make(cfg, use_stochastic_rounding=True)
  else:
    q = fp.make(cfg)
  y = np.asarray(q(tf.constant(x)), dtype=np.float32)
  y64 = y.astype(np.float64)
  x64 = x.astype(np.float64)
  evals = 0
  up = down = clipped = 0
  if f["sign"]:
    pos, neg = f["allowed"][1], f["allowed"][0]
    # nearest of two codes -v/+v is the sign; a tie zone of 2 ulp32(0.5) of the scaled input
    # around 0 is accepted for quantized_linear, whose sign comes from round(x/s - 0.5) + 0.5
    # quantized_bits: sign(x) of a float32 denormal is sign(0) (TensorFlow flushes denormals):
    # |x| < FLT_MIN is the tie zone of the two codes
    tie = 4 * 2.0 ** -24 * abs(pos) if cfg["cls"] == "quantized_linear" else float(np.finfo(np.float32).tiny)
    exp_pos = x64 > -tie if cfg["cls"] == "quantized_bits" else x64 >= -tie
    exp_neg = x64 < tie if cfg["cls"] == "quantized_linear" else x64 < 0
    ok = ((y64 == pos) & exp_pos) | ((y64 == neg) & exp_neg)
    evals += x.size
    if not ok.all():
      i = int(np.flatnonzero(~ok)[0])
      bad("nearest", "x=%r -> %r, expected sign code" % (float(x[i]), float(y[i])), x=float(x[i]),
          y=float(y[i]))
    up, down, clipped = int((y64 > x64).sum()), int((y64 < x64).sum()), int((np.abs(x64) > abs(pos)).sum())
  else:
    cmin, cmax, a = expected_interval(cfg, f, x64)
    c = y64 / f["step"]
    inside = (a / f["runit"] >= f["lo"] - 0.5) & (a / f["runit"] <= f["hi"] + 0.5)
    okc = (c >= cmin) & (c <= cmax)
    evals += x.size
    if not okc.all():
      i = int(np.flatnonzero(~okc)[0])
      clause = "nearest" if inside[i] else "end-code"
      bad(clause, "x=%r -> %r (code %r), admissible codes [%d,%d]" % (
          float(x[i]), float(y[i]), float(c[i]), cmin[i], cmax[i]),
          x=float(x[i]), y=float(y[i]), code=float(c[i]), cmin=float(cmin[i]), cmax=float(cmax[i]))
    # |y - a| <= step/2 inside the range (in the rounding unit; legacy alpha: y/alpha vs x)
    yy = c * f["runit"]
    err = np.abs(yy - a)
    lim = f["runit"] / 2 + fp.slack(f)
    badd = inside & (err > lim * (1 + 1e-12))
    evals += int(inside.sum())
    if badd.any():
      i = int(np.flatnonzero(badd)[0])
      bad("half-step", "x=%r: |%r - %r| > step/2" % (float(x[i]), float(yy[i]), float(a[i])),
          x=float(x[i]), y=float(y[i]))
    up, down = int((yy > a).sum()), int((yy < a).sum())
    clipped = int((~inside).sum())
  # monotone non-decreasing on the sorted alphabet (every adjacent pair)
  dy = np.diff(y64)
  evals += dy.size
  dec = dy < 0
  if dec.any() and not f["sign"] and fp.slack(f) > 0:
    # float32 transcendental / affine surrogates are not monotone at the ulp level: a decrease is
    # excused only when both codes are admissible (inside the tie zone of one breakpoint) for
    # BOTH inputs of the pair
    cc = y64 / f["step"]
    excuse = (cc[:-1] <= cmax[1:]) & (cc[1:] >= cmin[:-1])
    dec = dec & ~excuse
  if dec.any():
    i = int(np.flatnonzero(dec)[0])
    bad("monotone", "q(%r)=%r > q(%r)=%r" % (float(x[i]), float(y[i]), float(x[i + 1]), float(y[i + 1])),
        x0=float(x[i]), x1=float(x[i + 1]), y0=float(y[i]), y1=float(y[i + 1]))
  # idempotence for the linear and plain-ReLU formats (data-independent scale)
  idem = cfg["cls"] in ("quantized_bits", "quantized_linear") or (
      cfg["cls"] == "quantized_relu" and not cfg["slope"])
  if idem:
    y2 = np.asarray(q(tf.constant(y)), dtype=np.float32)
    evals += y.size
    if not np.array_equal(y2, y):
      i = int(np.flatnonzero(y2 != y)[0])
      bad("idempotent", "q(q(x)) != q(x): x=%r q=%r qq=%r" % (float(x[i]), float(y[i]), float(y2[i])),
          x=float(x[i]), y=float(y[i]), yy=float(y2[i]))
  nontrivial = int(up > 0 and down > 0 and clipped > 0)
  return {
      "evals": evals, "transitions": 2 if idem else 1, "nontrivial": nontrivial,
      "state": repr(sorted(cfg.items())), "digest": common.digest(y), "violations": viol,
      "traces": int(x.size),
      "sample": {"cfg": cfg, "alphabet_size": int(x.size), "rounded_up": up, "rounded_down": down,
                 "clipped": clipped, "x_head": x[:4].tolist(), "y_head": y[:4].tolist()},
  }

# (appended: sub-lattices added after the seeded waves; kept out of the original RULE text for readability)
RULE = RULE + '; plus: use_stochastic_rounding=True in the inference phase; mutation histories on one object (symmetric flips, layer hook, before / after a first call) judged against a fresh object; thorough: complete float32 sweeps'
