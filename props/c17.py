"""C17 - qtools accumulator and adder types can hold every sum they are sized for.

Same value-set model and conformance as C16 (mc/qtypes.py).  Enumerated completely, against the real
factories:
  acc    every distinct multiplier output type (all ordered operand pairs of the bounded operand set)
         x kernel shapes (dense (N,M), conv (kh,kw,cin,cout)) with N over {1..5,7,8,9, 2^k-1, 2^k, 2^k+1}
         x use_bias: N*max and N*min of the multiplier value set are members of vals(accumulator) and the
         accumulator resolves the multiplier's least significant bit; brute force of ALL N-tuples for value
         sets of at most 8 values and N <= 4
  adder  every ordered pair of operand types through IAdder (fixed, po2 -> fixed, ternary, binary...): the
         sums of the extreme values (brute force: all value pairs for small types) are members; resolution
         not coarser than the finest operand
  merge  the Add / Maximum / Concatenate output types for every ordered pair
  mono   widening an operand by one bit (fraction or integer) never narrows the result type (every adjacent
         pair of the operand lattice, for multiplier, accumulator, adder and merge results)
"""
import itertools

import numpy as np

from mc import common
from mc import qtypes

ID = "C17"
TITLE = "qtools accumulator and adder types can hold every sum they are sized for"
TECHNIQUE = ("explicit value-set model of qtools types; exhaustive enumeration of all multiplier output types x "
             "kernel sizes x bias and of all adder / merge operand pairs against the real factories, exact dyadic "
             "arithmetic, brute force over all N-tuples / value pairs for small types; adjacent-pair monotonicity")
RULE = ("cases = first operand type (per sub-check); each is combined with every second operand type and every kernel "
        "size; evaluations = sums / fields decided; non-trivial = results whose type is strictly wider than every "
        "operand type")
ASSUMPTIONS = [
    "value-set denotation of mc/qtypes.py (validated against the real quantizers by C16's conformance cases)",
    "operand set: fixed signed/unsigned to 8 bits (12 thorough), po2 to 5 bits (8 thorough), ternary, binary, binary 0/1",
    "kernel sizes N = prod(kernel_shape[:-1]) in {1,2,3,4,5,7,8,9} and 2^k-1, 2^k, 2^k+1 for k in {4,8,12,16,20} (quick) / 4..20 (thorough)",
    "for the accumulator the bias is counted as one more addend of the multiplier type (the library sizes log2(N+1)); the "
    "bias adder is judged separately under 'adder'",
]


def bound(tier):
  return {"fixed_bits": 8 if tier == "quick" else 12, "po2_bits": 5 if tier == "quick" else 8,
          "N": _ns(tier), "shapes": ["(N,3)", "(1,1,N,2)", "(3,3,N/9,2) when 9|N"]}


def worker_init():
  common.tf_init()


def _specs(tier):
  fb = 8 if tier == "quick" else 12
  pb = 5 if tier == "quick" else 8
  return [s for s in qtypes.operand_specs(fb, (2, pb)) if s[0] not in ("float", "float16", "sternary", "sbinary", "bernoulli")]


def _ns(tier):
  ks = (4, 8, 12, 16, 20) if tier == "quick" else range(4, 21)
  ns = [1, 2, 3, 4, 5, 7, 8, 9]
  for k in ks:
    ns += [2 ** k - 1, 2 ** k, 2 ** k + 1]
  return sorted(set(ns))


def enumerate_cases(tier, seed):
  out = []
  for s in _specs(tier):
    for sub in ("acc", "adder", "merge"):
      out.append(dict(sub=sub, a=list(s), tier=tier))
  return out


def _fields(T):
  d = qtypes.den(T)
  if d.kind == "fixed":
    return ("fixed", d.int_bits, d.frac, d.signed)
  if d.kind == "po2":
    return ("po2", d.emax, -d.emin, d.signed)
  return (d.kind,)


def _shapes(n):
  sh = [(n, 3), (1, 1, n, 2)]
  if n % 9 == 0:
    sh.append((3, 3, n // 9, 2))
  return sh


def _widen(spec):
  """Adjacent lattice points: one more fraction bit / one more integer bit."""
  k = spec[0]
  if k in ("qb", "qr"):
    return [(k, spec[1] + 1, spec[2]), (k, spec[1] + 1, spec[2] + 1)]
  if k in ("po2", "rpo2"):
    return [(k, spec[1] + 1, spec[2])]
  return []


def _not_narrower(f0, f1):
  if f0[0] != f1[0] or f0[0] not in ("fixed", "po2"):
    return True
  return f1[1] >= f0[1] and f1[2] >= f0[2] and f1[3] >= f0[3]


def run_acc(case, specs, ns):
  from qkeras.qtools.quantized_operators import multiplier_factory, accumulator_factory  # pylint: disable=import-outside-toplevel
  mf = multiplier_factory.MultiplierFactory()
  af = accumulator_factory.AccumulatorFactory()
  aspec = tuple(case["a"])
  aT = qtypes.make_type(aspec)
  viol, evals, nontriv = [], 0, 0
  seen = set()
  digest = []

  def bad(clause, what, **d):
    # one record per signature and case; `insts` names every failing operand combination (see C16)
    inst = "a=%s|%s" % ("/".join(map(str, aspec)), "|".join("%s=%s" % (k, "/".join(map(str, v)) if isinstance(v, list) else v)
                                                            for k, v in sorted(d.items())))
    for v in viol:
      if v["key"] == clause:
        if inst not in v["_set"]:
          v["_set"].add(inst)
          v["insts"].append(inst)
        return
    viol.append({"key": clause, "what": what, "detail": dict(a=list(aspec), **d), "insts": [inst], "_set": {inst}})
  for xspec in specs:
    xT = qtypes.make_type(xspec)
    m = mf.make_multiplier(aT, xT)
    md = qtypes.den(m.output)
    key = (m.implemented_as(), repr(md))
    if md.kind in ("float", "empty"):
      continue
    # monotonicity of the multiplier itself in its input operand
    f0 = _fields(m.output)
    for w in _widen(xspec):
      f1 = _fields(mf.make_multiplier(aT, qtypes.make_type(w)).output)
      evals += 1
      if not _not_narrower(f0, f1):
        bad("mono:multiplier:" + m.implemented_as(), "widening the input %r -> %r narrows the product type %r -> %r (weight %r)" % (
            xspec, w, f0, f1, aspec), x=list(xspec))
    if key in seen:
      continue
    seen.add(key)
    mmin, mmax, ml = qtypes.extremes(md)
    mvals = qtypes.enumerate_values(md)
    kind_tag = "%s-mult" % md.kind
    prev = None
    for n in ns:
      for shape in _shapes(n):
        for use_bias in (False, True):
          acc = af.make_accumulator(shape, m, use_bias)
          ad = qtypes.den(acc.output)
          digest.append((n, use_bias, repr(ad)))
          evals += 3
          # all addends at one extreme, one addend at the other extreme, and a single smallest-magnitude value
          sums = np.array([n * mmax, n * mmin, (n - 1) * mmax + mmin, (n - 1) * mmin + mmax] +
                          [v for v in (ml, -ml) if qtypes.contains(md, np.array([v]))[0]])
          ok = qtypes.contains(ad, sums)
          if not ok.all():
            i = int(np.flatnonzero(~ok)[0])
            omin, omax, _ = qtypes.extremes(ad)
            rel = "magnitude" if (sums[i] > omax or sums[i] < omin) else "resolution"
            bad("acc:%s:%s" % (rel, kind_tag), "N=%d shape=%r bias=%r: multiplier type %r (%r x %r), sum %r not in accumulator %r" % (
                n, shape, use_bias, md, aspec, xspec, sums[i], ad), x=list(xspec), n=n)
          le_m, le_a = qtypes.lsb_exp(md), qtypes.lsb_exp(ad)
          if le_a is not None and le_m is not None and le_a > le_m:
            bad("acc:resolution:" + kind_tag, "N=%d: accumulator %r is coarser than the multiplier type %r (%r x %r)" % (
                n, ad, md, aspec, xspec), x=list(xspec), n=n)
          if mvals is not None and len(mvals) <= 8 and n <= 4 and shape == (n, 3):
            tuples = np.array(list(itertools.product(mvals, repeat=n))).sum(axis=1)
            evals += int(tuples.size)
            okb = qtypes.contains(ad, tuples)
            if not okb.all():
              bad("acc:bruteforce:" + kind_tag, "N=%d: some sum of %d values of %r (%r x %r) is not in %r, e.g. %r" % (
                  n, n, md, aspec, xspec, ad, tuples[~okb][0]), x=list(xspec), n=n)
          f = _fields(acc.output)
          if use_bias is False and shape == (n, 3):
            if prev is not None and not _not_narrower(prev, f):
              bad("mono:accumulator", "growing N narrows the accumulator: %r -> %r at N=%d (%r x %r)" % (prev, f, n, aspec, xspec),
                  x=list(xspec), n=n)
            prev = f
          if qtypes.size(ad) > qtypes.size(md):
            nontriv += 1
  return viol, evals, nontriv, digest


def run_pairs(case, specs, which):
  from qkeras.qtools.quantized_operators import adder_factory, merge_factory  # pylint: disable=import-outside-toplevel
  aspec = tuple(case["a"])
  aT = qtypes.make_type(aspec)
  ad = qtypes.den(aT)
  viol, evals, nontriv, digest = [], 0, 0, []

  def bad(clause, what, **d):
    # one record per signature and case; `insts` names every failing operand combination (see C16)
    inst = "a=%s|%s" % ("/".join(map(str, aspec)), "|".join("%s=%s" % (k, "/".join(map(str, v)) if isinstance(v, list) else v)
                                                            for k, v in sorted(d.items())))
    for v in viol:
      if v["key"] == clause:
        if inst not in v["_set"]:
          v["_set"].add(inst)
          v["insts"].append(inst)
        return
    viol.append({"key": clause, "what": what, "detail": dict(a=list(aspec), **d), "insts": [inst], "_set": {inst}})
  if ad.kind == "empty":
    return viol, 1, 0, ["empty"]
  amin, amax, al = qtypes.extremes(ad)
  av = qtypes.enumerate_values(ad, cap=64)
  for bspec in specs:
    bT = qtypes.make_type(bspec)
    bd = qtypes.den(bT)
    if bd.kind == "empty":
      continue
    bmin, bmax, bl = qtypes.extremes(bd)
    bv = qtypes.enumerate_values(bd, cap=64)
    ks = (qtypes.kind_of(aT), qtypes.kind_of(bT))
    kinds = "po2" if "po2" in ks else ("binary" if "binary" in ks else "fixed")
    if which == "adder":
      ops = [("adder", adder_factory.IAdder().make_quantizer(aT, bT).output, "sum")]
    else:
      mfac = merge_factory.MergeFactory()
      ops = [(lt, mfac.make_quantizer([(aT, None), (bT, None)], lt).output, sem)
             for lt, sem in (("Add", "sum"), ("Maximum", "either"), ("Concatenate", "either"))]
    for name, outT, sem in ops:
      od = qtypes.den(outT)
      digest.append((name, repr(od)))
      if av is not None and bv is not None:
        if sem == "sum":
          vals = np.add.outer(av, bv).reshape(-1)
        else:
          vals = np.concatenate([av, bv])
      else:
        ca = [v for v in (amin, amax, al, -al) if qtypes.contains(ad, np.array([v]))[0]]
        cb = [v for v in (bmin, bmax, bl, -bl) if qtypes.contains(bd, np.array([v]))[0]]
        vals = np.add.outer(np.array(ca), np.array(cb)).reshape(-1) if sem == "sum" else np.array(ca + cb)
      evals += int(vals.size)
      ok = qtypes.contains(od, vals)
      if not ok.all():
        i = int(np.flatnonzero(~ok)[0])
        omin, omax, _ = qtypes.extremes(od)
        rel = "magnitude" if od.kind != "empty" and (vals[i] > omax or vals[i] < omin) else "resolution"
        bad("%s:%s:%s" % (name, rel, kinds), "%s(%r, %r) -> %r cannot hold %r" % (name, aspec, bspec, od, vals[i]),
            b=list(bspec))
      la, lb, lo = qtypes.lsb_exp(ad), qtypes.lsb_exp(bd), qtypes.lsb_exp(od)
      if lo is not None and lo > min(la, lb) and not any(v["key"].startswith(name + ":resolution") for v in viol):
        bad("%s:resolution:%s" % (name, kinds), "%s(%r, %r) -> %r is coarser than the finest operand" % (name, aspec, bspec, od),
            b=list(bspec))
      f0 = _fields(outT)
      for w in _widen(bspec):
        wT = qtypes.make_type(w)
        if which == "adder":
          f1 = _fields(adder_factory.IAdder().make_quantizer(aT, wT).output)
        else:
          f1 = _fields(merge_factory.MergeFactory().make_quantizer([(aT, None), (wT, None)], name).output)
        evals += 1
        if not _not_narrower(f0, f1):
          bad("mono:%s:%s" % (name, kinds), "widening %r -> %r narrows %s(%r, .) from %r to %r" % (bspec, w, name, aspec, f0, f1),
              b=list(bspec))
      if qtypes.size(od) > max(qtypes.size(ad), qtypes.size(bd)):
        nontriv += 1
  return viol, evals, nontriv, digest


def run_case(case):
  common.tf_init()
  specs = _specs(case["tier"])
  if case["sub"] == "acc":
    viol, evals, nontriv, digest = run_acc(case, specs, _ns(case["tier"]))
  else:
    viol, evals, nontriv, digest = run_pairs(case, specs, case["sub"])
  for v in viol:
    v.pop("_set", None)
  return {"evals": evals, "transitions": len(digest), "nontrivial": nontriv,
          "state": "%s:%r" % (case["sub"], case["a"]), "digest": common.digest(digest[:5000]), "violations": viol,
          "traces": 0, "sample": {"sub": case["sub"], "first_operand": case["a"], "results": len(digest),
                                  "example": digest[:2]}}

# (appended: sub-lattices added after the seeded waves; kept out of the original RULE text for readability)
RULE = RULE + '; every failing operand combination is named so that findings are identified by their exact input sets'
