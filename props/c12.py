"""C12 - model_quantize converts exactly what the configuration names and nothing else.

Kernel P: every model of a bounded model grammar (typed layer alphabet, chains of depth <= 2/3, Sequential and
functional form, fork-merge diamonds) x every dictionary of a bounded dictionary grammar (entry absent / by
class / by name / by name AND class with different quantizers) x activation_bits x transfer_weights.
Reference model `ref_convert`: the specified rewriting of one layer config, written independently; the
expected quantized layer is built directly with Q<Class>.from_config(expected config) and compared with the
layer model_quantize produced (class, full get_config(), printed quantizers).
"""
import copy
import itertools
import json

import numpy as np

from mc import common

ID = "C12"
TITLE = "model_quantize converts exactly what the configuration names and nothing else"
TECHNIQUE = ("exhaustive enumeration of a bounded model grammar x bounded dictionary grammar on the real "
             "model_quantize against an independent per-layer rewriting reference (ref_convert); source model and "
             "caller dictionaries digested before/after")
RULE = ("cases = (program, dictionary modes, activation_bits, transfer_weights); evaluations = layers compared; "
        "non-trivial = programs in which at least one layer was converted and at least one was left alone, or a name "
        "entry had to win over a different class entry")
ASSUMPTIONS = [
    "tf_keras model (de)serialisation is trusted; GRU with reset_after=False (reset_after=True does not run in this image)",
    "dictionary keys per class are those the quantized class itself takes (kernel_/depthwise_/pointwise_/recurrent_/"
    "bias_/average_quantizer, activation_quantizer); QActivation entries as string and as {activation: string} map",
    "chains to depth 2 (quick) / 3 with the deviation bound (thorough); one Add and one Concatenate diamond",
]

KQ, KQ2 = "quantized_bits(4,0,1)", "ternary()"
BQ, BQ2 = "quantized_bits(6,2,1)", "quantized_po2(4)"
AQ = "quantized_relu(5,1)"

# symbol -> (class, rank_in (None = any), rank_out (None = same), kwargs)
def _alphabet():
  syms = {}
  for ub in (True, False):
    for act in (None, "relu"):
      sfx = "%s%s" % ("b" if ub else "n", "r" if act else "l")
      syms["Dense_" + sfx] = ("Dense", None, None, dict(units=3, use_bias=ub, activation=act))
      syms["Conv1D_" + sfx] = ("Conv1D", 3, 3, dict(filters=2, kernel_size=2, use_bias=ub, activation=act))
      syms["Conv2D_" + sfx] = ("Conv2D", 4, 4, dict(filters=2, kernel_size=2, use_bias=ub, activation=act))
      syms["DepthwiseConv2D_" + sfx] = ("DepthwiseConv2D", 4, 4, dict(kernel_size=2, use_bias=ub, activation=act))
      syms["SeparableConv2D_" + sfx] = ("SeparableConv2D", 4, 4, dict(filters=2, kernel_size=2, use_bias=ub, activation=act))
  for ub in (True, False):
    sfx = "b" if ub else "n"
    syms["SimpleRNN_" + sfx] = ("SimpleRNN", 3, 2, dict(units=2, use_bias=ub))
    syms["LSTM_" + sfx] = ("LSTM", 3, 2, dict(units=2, use_bias=ub))
    syms["GRU_" + sfx] = ("GRU", 3, 2, dict(units=2, use_bias=ub, reset_after=False))
  # Bidirectional wrappers: default (backward layer derived from the forward one) and with an explicit, differently
  # configured backward_layer (its own name, no bias): the wrapper is selected by the "QBidirectional" class entry or by
  # the wrapper's name and one configuration serves both directions
  syms["Bidirectional_lstm"] = ("Bidirectional", 3, 2, dict(inner=("LSTM", dict(units=2))))
  syms["Bidirectional_gru_n"] = ("Bidirectional", 3, 2, dict(inner=("GRU", dict(units=2, use_bias=False, reset_after=False))))
  syms["Bidirectional_rnn_bw"] = ("Bidirectional", 3, 2, dict(inner=("SimpleRNN", dict(units=2)),
                                                             backward=("SimpleRNN", dict(units=2, use_bias=False, go_backwards=True))))
  syms["Bidirectional_lstm_bw"] = ("Bidirectional", 3, 2, dict(inner=("LSTM", dict(units=2, use_bias=False)),
                                                              backward=("LSTM", dict(units=2, go_backwards=True))))
  syms["AveragePooling2D"] = ("AveragePooling2D", 4, 4, dict(pool_size=2))
  syms["GlobalAveragePooling2D"] = ("GlobalAveragePooling2D", 4, 2, {})
  syms["BatchNormalization"] = ("BatchNormalization", None, None, {})
  syms["BatchNormalization_stats"] = ("BatchNormalization", None, None, dict(center=False, scale=False))
  for a in ("relu", "tanh", "sigmoid", "softmax", "linear"):
    syms["Activation_" + a] = ("Activation", None, None, dict(activation=a))
  syms["ReLU"] = ("ReLU", None, None, {})
  syms["ReLU6"] = ("ReLU", None, None, dict(max_value=6.0))
  syms["LeakyReLU"] = ("LeakyReLU", None, None, dict(alpha=0.25))
  syms["Flatten"] = ("Flatten", None, 2, {})
  return syms


ALPHABET = _alphabet()
QUICK_SYMS = [s for s in ALPHABET if s.split("_")[-1] in ("br", "nl", "b") or "_" not in s or s.startswith("Activation")
              or s == "Bidirectional_rnn_bw"]
SHAPES = {2: (5,), 3: (4, 3), 4: (5, 5, 3)}
WEIGHT_KEYS = {
    "Dense": ["kernel_quantizer", "bias_quantizer"], "Conv1D": ["kernel_quantizer", "bias_quantizer"],
    "Conv2D": ["kernel_quantizer", "bias_quantizer"], "DepthwiseConv2D": ["depthwise_quantizer", "bias_quantizer"],
    "SeparableConv2D": ["depthwise_quantizer", "pointwise_quantizer", "bias_quantizer"],
    "SimpleRNN": ["kernel_quantizer", "recurrent_quantizer", "bias_quantizer"],
    "LSTM": ["kernel_quantizer", "recurrent_quantizer", "bias_quantizer"],
    "GRU": ["kernel_quantizer", "recurrent_quantizer", "bias_quantizer"],
    "Bidirectional": ["kernel_quantizer", "recurrent_quantizer", "bias_quantizer"],
    "AveragePooling2D": ["average_quantizer"], "GlobalAveragePooling2D": ["average_quantizer"],
}
# "class:other-key": the QActivation class entry is a dictionary that has NO key for this layer's activation kind (only
# for the other kinds): the layer is not selected and must be left exactly as it was
MODES = ["class", "absent", "name", "name+class", "partialname+class", "class:other-key"]


def bound(tier):
  return {"depth": 2 if tier == "quick" else 3, "symbols": len(ALPHABET), "dictionary_modes": MODES,
          "activation_bits": [4, 6], "forms": ["functional", "sequential"], "diamonds": ["Add", "Concatenate"]}


def worker_init():
  common.tf_init()


def _chains(depth, syms):
  out = []
  for d in range(1, depth + 1):
    for seq in itertools.product(syms, repeat=d):
      rank = None
      ok = True
      first_rank = None
      for s in seq:
        _, rin, rout, _ = ALPHABET[s]
        if rank is None:
          rank = rin
          first_rank = rin
        elif rin is not None and rin != rank:
          ok = False
          break
        if rout is not None:
          rank = rout
        elif rank is None:
          pass
      if not ok:
        continue
      # input rank: what the first rank-constrained layer before any rank change needs, default 4
      need = None
      r = None
      for s in seq:
        _, rin, rout, _ = ALPHABET[s]
        if rin is not None and need is None and r is None:
          need = rin
        if rout is not None and r is None:
          r = rout
      out.append((list(seq), need or 4))
  return out


def _valid_chain(seq, in_rank):
  rank = in_rank
  for s in seq:
    _, rin, rout, _ = ALPHABET[s]
    if rin is not None and rin != rank:
      return False
    if ALPHABET[s][0] == "Flatten" and rank == 2:
      return False
    if rout is not None:
      rank = rout
  return True


def enumerate_cases(tier, seed):
  out = []
  syms = list(ALPHABET)
  # depth 1: every symbol x every dictionary mode x bits x transfer x form
  for s in syms:
    rin = ALPHABET[s][1] or 4
    for mode in MODES:
      for bits in (4, 6):
        for tw in (False, True):
          for form in ("functional", "sequential"):
            out.append(dict(kind="chain", seq=[s], in_rank=rin, modes=[mode], bits=bits, transfer=tw, form=form))
  # depth 2: typed pairs; dictionary modes: (class,class), (name+class, absent), (absent, name)
  pair_syms = QUICK_SYMS if tier == "quick" else syms
  for a in pair_syms:
    for b in pair_syms:
      for in_rank in ((ALPHABET[a][1],) if ALPHABET[a][1] else (4, 3, 2)):
        if not _valid_chain([a, b], in_rank):
          continue
        if ALPHABET[a][1] is None and in_rank != (ALPHABET[b][1] or 4) and ALPHABET[a][2] is None:
          continue
        for modes in (["class", "class"], ["name+class", "absent"], ["absent", "name"], ["partialname+class", "class"]):
          out.append(dict(kind="chain", seq=[a, b], in_rank=in_rank, modes=modes, bits=4, transfer=True, form="functional"))
  # enable_bn_folding=True on programs with nothing to fold (no Conv2D / DepthwiseConv2D directly followed by a
  # BatchNormalization): the option must change nothing - in particular the requested weight transfer still happens
  def _foldable(seq):
    return any(ALPHABET[a][0] in ("Conv2D", "DepthwiseConv2D") and ALPHABET[b][0] == "BatchNormalization"
               for a, b in zip(seq, seq[1:]))
  for c in list(out):
    if c["kind"] == "chain" and c["transfer"] and c["form"] == "functional" and c["bits"] == 4 and not _foldable(c["seq"]) \
        and c["modes"][0] in ("class", "name+class") and (len(c["seq"]) == 1 or c["modes"] == ["class", "class"]):
      if tier == "quick" and len(c["seq"]) == 2 and not any(ALPHABET[x][0] == "BatchNormalization" for x in c["seq"]):
        continue   # quick: the near misses (a BatchNormalization that does not follow a convolution) only
      out.append(dict(c, fold=True))
  if tier == "thorough":
    core = ["Dense_br", "Conv2D_br", "DepthwiseConv2D_nl", "BatchNormalization", "Activation_relu", "ReLU", "Flatten",
            "GlobalAveragePooling2D", "SimpleRNN_b", "LSTM_n", "AveragePooling2D", "LeakyReLU"]
    for a, b, c in itertools.product(core, repeat=3):
      for in_rank in ((ALPHABET[a][1],) if ALPHABET[a][1] else (4,)):
        if _valid_chain([a, b, c], in_rank):
          out.append(dict(kind="chain", seq=[a, b, c], in_rank=in_rank, modes=["class", "name+class", "class"], bits=4,
                          transfer=True, form="functional"))
  for merge in ("Add", "Concatenate"):
    for a in ("Dense_br", "Dense_nl", "Conv2D_br", "Activation_relu", "BatchNormalization"):
      for b in ("Dense_br", "Conv2D_nl", "Activation_tanh", "ReLU"):
        ra, rb = ALPHABET[a][1], ALPHABET[b][1]
        if ra and rb and ra != rb:
          continue
        for modes in (["class", "class"], ["name", "absent"]):
          out.append(dict(kind="diamond", merge=merge, seq=[a, b], in_rank=ra or rb or 4, modes=modes, bits=4,
                          transfer=True, form="functional"))
  return out


def build_model(case):
  tf = common.tf_init()
  L = tf.keras.layers
  names = ["l%d_%s" % (i, s.split("_")[0].lower()) for i, s in enumerate(case["seq"])]
  shape = SHAPES[case["in_rank"]]
  layers = []
  for s, n in zip(case["seq"], names):
    cls, _, _, kw = ALPHABET[s]
    if cls == "Bidirectional":
      fw = getattr(L, kw["inner"][0])(name=n + "_fw", **kw["inner"][1])
      bw = getattr(L, kw["backward"][0])(name=n + "_bw", **kw["backward"][1]) if "backward" in kw else None
      layers.append(L.Bidirectional(fw, backward_layer=bw, name=n))
    else:
      layers.append(getattr(L, cls)(name=n, **kw))
    if case.get("frozen"):
      layers[-1].trainable = False
  if case["kind"] == "diamond":
    inp = L.Input(shape, name="inp")
    a = layers[0](inp)
    b = layers[1](inp)
    if a.shape[1:] != b.shape[1:]:
      return None, names
    out = getattr(L, case["merge"])(name="merge")([a, b])
    return tf.keras.Model(inp, out), names
  if case["form"] == "sequential":
    m = tf.keras.Sequential([L.InputLayer(shape, name="inp")] + layers)
    return m, names
  inp = L.Input(shape, name="inp")
  x = inp
  for l in layers:
    x = l(x)
  return tf.keras.Model(inp, x), names


def entry_for(cls, variant):
  """Dictionary entry for a layer of a stock class.  variant 0/1 = two different quantizer sets."""
  k, b = (KQ, BQ) if variant == 0 else (KQ2, BQ2)
  if cls in WEIGHT_KEYS:
    e = {}
    for key in WEIGHT_KEYS[cls]:
      e[key] = b if key == "bias_quantizer" else ("quantized_bits(8,0,1,alpha=1)" if key == "average_quantizer" else k)
    if variant == 1:
      e["activation_quantizer"] = AQ
    return e
  if cls == "Activation":
    return "quantized_relu(3,1)" if variant == 0 else {"relu": "quantized_relu(6,2)", "tanh": "quantized_tanh(5)"}
  if cls in ("ReLU", "LeakyReLU"):
    return "quantized_relu(3,1)" if variant == 0 else {"relu": "quantized_relu(6,2)", "leakyrelu": "quantized_relu(6,2,negative_slope=0.25)"}
  if cls == "BatchNormalization":
    return {} if variant == 0 else {"gamma_quantizer": "quantized_bits(6,2,1)", "beta_quantizer": "quantized_bits(5,1,1)"}
  return None


def qclass_key(cls):
  if cls in ("Activation", "ReLU", "LeakyReLU"):
    return "QActivation"
  return "Q" + cls


def build_dict(case, names):
  d = {}
  for s, n, mode in zip(case["seq"], names, case["modes"]):
    cls = ALPHABET[s][0]
    if entry_for(cls, 0) is None:
      continue
    if mode == "class:other-key":
      if cls in ("Activation", "ReLU", "LeakyReLU"):
        kind = ALPHABET[s][3].get("activation") if cls == "Activation" else ("leakyrelu" if cls == "LeakyReLU" else "relu")
        d[qclass_key(cls)] = {k: v for k, v in {"relu": "quantized_relu(6,2)", "leakyrelu": "quantized_relu(6,2,negative_slope=0.25)",
                                                "tanh": "quantized_tanh(5)"}.items() if k != kind}
      else:
        d[qclass_key(cls)] = entry_for(cls, 0)
      continue
    if mode in ("class", "name+class", "partialname+class"):
      d[qclass_key(cls)] = entry_for(cls, 0)
    if mode in ("name", "name+class"):
      d[n] = entry_for(cls, 1)
    if mode == "partialname+class":
      # a name entry that sets only the main weight quantizer (or is empty): it replaces the class entry as a whole,
      # nothing is inherited from the class entry
      e = entry_for(cls, 1)
      if isinstance(e, dict) and cls in WEIGHT_KEYS:
        e = {WEIGHT_KEYS[cls][0]: e[WEIGHT_KEYS[cls][0]]}
      elif isinstance(e, dict):
        e = {}
      d[n] = e
  return d


def ref_convert(cls, cfg, qdict, bits):
  """Specified outcome for one layer: None (left alone) or (new class name, new config)."""
  name = cfg["name"]
  key = qclass_key(cls)
  entry = qdict.get(name, qdict.get(key))
  cfg = copy.deepcopy(cfg)

  def qact(c):
    a = c.get("activation")
    if a == "relu":
      c["activation"] = "quantized_relu(%d)" % bits
    elif a == "tanh":
      c["activation"] = "quantized_tanh(%d)" % bits
    elif a == "sigmoid":
      c["activation"] = "quantized_sigmoid(%d)" % bits
  if cls == "Bidirectional":
    # one entry (wrapper name, else "QBidirectional") serves both directions; each wrapped rnn becomes its Q class with
    # the entry's quantizers exactly as a stand-alone rnn selected by that entry would
    if not isinstance(entry, dict) or entry.get("kernel_quantizer") is None:
      return None
    for part in ("layer", "backward_layer"):
      if part not in cfg:
        continue
      inner = cfg[part]
      sub = ref_convert(inner["class_name"], inner["config"], {inner["config"]["name"]: entry}, bits)
      inner["class_name"], inner["config"] = sub
      if "registered_name" in inner:
        inner.pop("registered_name")
    return "QBidirectional", cfg
  if cls in WEIGHT_KEYS:
    if not isinstance(entry, dict):
      return None
    main = WEIGHT_KEYS[cls][0]
    if entry.get(main) is None:
      return None
    for k in WEIGHT_KEYS[cls]:
      cfg[k] = entry.get(k)
    if "bias_quantizer" in WEIGHT_KEYS[cls] and not cfg.get("use_bias", True):
      cfg["bias_quantizer"] = None
    if cls in ("SimpleRNN", "LSTM", "GRU"):
      cfg["state_quantizer"] = entry.get("state_quantizer")
    if entry.get("activation_quantizer"):
      cfg["activation"] = entry["activation_quantizer"]
    else:
      qact(cfg)
    return "Q" + cls, cfg
  if cls == "Activation":
    if entry is None:
      return None
    if isinstance(entry, dict):
      q = entry.get(cfg["activation"])
      if not q:
        return None
      cfg["activation"] = q
    else:
      cfg["activation"] = entry
    return "QActivation", cfg
  if cls in ("ReLU", "LeakyReLU"):
    if entry is None:
      return None
    slope = cfg.get("alpha", 0.0) if cls == "LeakyReLU" else cfg.get("negative_slope", 0.0)
    qn = "leakyrelu" if slope > 0 else "relu"
    if isinstance(entry, dict):
      q = entry.get(qn)
      if not q:
        return None
    else:
      q = entry
    new = {"name": cfg["name"], "trainable": cfg.get("trainable", True), "dtype": cfg.get("dtype", "float32"),
           "activation": q}
    return "QActivation", new
  if cls == "BatchNormalization":
    if name not in qdict and "QBatchNormalization" not in qdict:
      return None
    e = entry if isinstance(entry, dict) else {}
    for k in ("gamma_quantizer", "beta_quantizer", "mean_quantizer", "variance_quantizer"):
      cfg[k] = e.get(k)
    return "QBatchNormalization", cfg
  return None


def _norm(o):
  """get_config() dictionaries compared structurally; numpy scalars and tuples normalised."""
  return json.loads(json.dumps(o, sort_keys=True, default=lambda v: v.tolist() if hasattr(v, "tolist") else repr(v)))


def _qstrs(layer):
  out = []
  if layer.__class__.__name__ == "QBidirectional":
    # both directions, each with its cell's activation
    for part in (layer.forward_layer, layer.backward_layer):
      out += [part.__class__.__name__] + (_qstrs(part) if hasattr(part, "get_quantizers") else ["<not quantized>"])
    return out
  if hasattr(layer, "get_quantizers"):
    out += [str(q) for q in layer.get_quantizers()]
  act = getattr(layer, "activation", None) if not hasattr(layer, "cell") else layer.cell.activation
  out.append(str(act) if (act is not None and not hasattr(act, "__name__")) else getattr(act, "__name__", None))
  return out


def run_case(case):
  tf = common.tf_init()
  common.reset_keras()
  import qkeras  # pylint: disable=import-outside-toplevel
  from qkeras import utils as qutils  # pylint: disable=import-outside-toplevel
  viol = []

  def bad(clause, what, cls="", **d):
    key = "%s%s" % (clause, (":" + cls) if cls else "")
    if len(viol) < 5 and not any(v["key"] == key for v in viol):
      viol.append({"key": key, "what": what, "detail": dict(case=case, **d)})
  try:
    model, names = build_model(case)
  except ValueError:
    # the STOCK program itself is not a valid Keras model (spatial extent exhausted by the chain): outside the space
    model, names = None, []
  if model is None:
    return {"evals": 0, "nontrivial": 0, "state": "invalid", "digest": "invalid", "violations": [],
            "info": {"invalid_programs": 1}}
  # deterministic weights
  for i, l in enumerate(model.layers):
    ws = l.get_weights()
    if ws:
      l.set_weights([common.tensor(w.shape, "grid7", i + j) * np.float32(0.5) + (0.1 if w.ndim == 1 else 0) for j, w in enumerate(ws)])
  qdict = build_dict(case, names)
  qdict_before = copy.deepcopy(qdict)
  json_before = model.to_json()
  w_before = [w.copy() for w in model.get_weights()]
  try:
    kw = {"enable_bn_folding": True} if case.get("fold") else {}
    qmodel = qutils.model_quantize(model, qdict, case["bits"], transfer_weights=case["transfer"], **kw)
  except Exception as e:  # pylint: disable=broad-except
    culprit = [ALPHABET[s][0] for s, n in zip(case["seq"], names)
               if ref_convert(ALPHABET[s][0], model.get_layer(n).get_config(), qdict, case["bits"]) is not None]
    import traceback as _tb  # pylint: disable=import-outside-toplevel
    fr = [f for f in _tb.extract_tb(e.__traceback__) if f.filename.startswith("/repo/")]
    where = "%s" % (fr[-1].name if fr else "?")
    bad("raises:%s" % type(e).__name__, "model_quantize raised %s: %s (program %r, dictionary %r; selected %r)" % (
        type(e).__name__, str(e)[:160], case["seq"], qdict, sorted(set(culprit))), where + ":" + str(e)[:24].replace(" ", "_"))
    return {"evals": 1, "nontrivial": 1, "state": repr(sorted(case.items())), "digest": "raise", "violations": viol}
  evals = 0
  converted = left = 0
  if qdict != qdict_before:
    bad("caller-dictionary-modified", "the quantizer dictionary was modified: %r -> %r" % (qdict_before, qdict))
  if model.to_json() != json_before:
    bad("source-model-modified", "the source model's architecture changed")
  if any(not np.array_equal(a, b) for a, b in zip(w_before, model.get_weights())):
    bad("source-weights-modified", "the source model's weights changed")
  if [l.name for l in qmodel.layers] != [l.name for l in model.layers]:
    bad("layer-names", "layer names/order %r != source %r" % ([l.name for l in qmodel.layers], [l.name for l in model.layers]))
    return {"evals": 1, "nontrivial": 1, "state": repr(sorted(case.items())), "digest": "names", "violations": viol}
  for src, ql in zip(model.layers, qmodel.layers):
    evals += 1
    cls = src.__class__.__name__
    if tuple(src.output_shape) != tuple(ql.output_shape):
      bad("output-shape", "layer %s: output shape %r, source %r" % (src.name, ql.output_shape, src.output_shape), cls)
    inb_s = [n.inbound_layers.name if not isinstance(n.inbound_layers, list) else [x.name for x in n.inbound_layers]
             for n in src.inbound_nodes]
    inb_q = [n.inbound_layers.name if not isinstance(n.inbound_layers, list) else [x.name for x in n.inbound_layers]
             for n in ql.inbound_nodes]
    if case["form"] == "functional" and inb_s != inb_q:
      bad("topology", "layer %s: inbound layers %r, source %r" % (src.name, inb_q, inb_s), cls)
    want = ref_convert(cls, src.get_config(), qdict_before, case["bits"]) if src.name in names else None
    if want is None:
      left += 1
      if ql.__class__.__name__ != cls:
        bad("converted-unselected", "layer %s (%s) is not selected by %r but became %s" % (
            src.name, cls, qdict_before, ql.__class__.__name__), cls)
      elif _norm(ql.get_config()) != _norm(src.get_config()):
        bad("unselected-config-changed", "layer %s (%s) is not selected but its config changed" % (src.name, cls), cls)
    else:
      converted += 1
      wcls, wcfg = want
      if ql.__class__.__name__ != wcls:
        bad("not-converted", "layer %s (%s) is selected by %r but is a %s, expected %s" % (
            src.name, cls, {k: qdict_before[k] for k in qdict_before if k in (src.name, qclass_key(cls))},
            ql.__class__.__name__, wcls), cls)
        continue
      try:
        co = {}
        qutils._add_supported_quantized_objects(co)  # pylint: disable=protected-access
        with tf.keras.utils.custom_object_scope(co):
          exp = getattr(qkeras, wcls).from_config(copy.deepcopy(wcfg))
      except Exception as e:  # pylint: disable=broad-except
        bad("reference-build", "harness could not build the expected %s: %s" % (wcls, e), cls)
        continue
      if _qstrs(exp) != _qstrs(ql):
        bad("quantizers", "layer %s: quantizers %r, the configured strings give %r" % (src.name, _qstrs(ql), _qstrs(exp)), cls)
      else:
        a, b = _norm(ql.get_config()), _norm(exp.get_config())
        if a != b:
          diff = sorted(k for k in set(a) | set(b) if a.get(k) != b.get(k))
          bad("hyper-parameters", "layer %s: config keys %r differ: %r vs expected %r" % (
              src.name, diff[:4], [a.get(k) for k in diff[:2]], [b.get(k) for k in diff[:2]]), cls)
    if case["transfer"] and src.get_weights():
      sw, qw = src.get_weights(), ql.get_weights()
      if len(sw) != len(qw) or any(not np.array_equal(x, y) for x, y in zip(sw, qw)):
        bad("transfer-weights", "layer %s: weights differ from the source after transfer_weights=True" % src.name, cls)
  precedence = any(m == "name+class" for m in case["modes"])
  return {"evals": evals, "transitions": 1, "nontrivial": int((converted > 0 and left > 1) or (precedence and converted > 0)),
          "state": repr(sorted((k, repr(v)) for k, v in case.items())), "digest": common.digest(qmodel.to_json()),
          "violations": viol, "traces": evals,
          "sample": {"program": case["seq"], "form": case["form"], "dictionary": qdict_before, "converted": converted}}

# (appended: sub-lattices added after the seeded waves; kept out of the original RULE text for readability)
RULE = RULE + "; plus: Bidirectional wrappers (default / explicit backward layer); dictionary entries without a key for the layer's activation kind; enable_bn_folding=True on programs with nothing to fold"
