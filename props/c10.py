"""C10 - quantizer strings parse as the equivalent Python call and str(q) re-parses to q.

Parse direction (kernel L over a literal grammar): every call text
    name '(' [positional literals] [, keyword=literal ...] ')'
within the bound is given to get_quantizer() and, independently, to Python's own eval() in a
namespace that contains only the quantizer classes (the reference semantics of "the same call
expression in Python").  Both must agree on raise-or-not and on the constructed object
(class and type-strict attribute dictionary).  Hostile argument texts must never execute;
keyword-before-positional texts must be rejected.
Print direction: every instance of the C09 lattice: str(q) must not raise and
get_quantizer(str(q)) must compute the same function on the C09 probes.
"""
import itertools
import os
import sys

import numpy as np

from mc import common
from props import c09

ID = "C10"
TITLE = "quantizer strings parse as the equivalent Python call and str(q) re-parses to q"
TECHNIQUE = ("exhaustive enumeration of a bounded call-text grammar against Python's own evaluation of the same "
             "text (differential, type-strict); exhaustive str()/re-parse round trip over the C09 option lattice")
RULE = ("parse: cases = (class, positional literal tuple), each expanded with every keyword subset within the bound, "
        "two whitespace styles; print: cases = C09 lattice instances; evaluations = texts parsed / instances "
        "round-tripped; non-trivial = texts on which both sides construct an object whose attributes differ from the "
        "default-constructed one, resp. instances whose options change the function")
ASSUMPTIONS = [
    "the reference semantics of a call text is Python's eval() of that text with only the quantizer classes in scope",
    "literal alphabet: ints, negative ints, floats (plain and exponent form), booleans, None, single- and double-quoted "
    "strings, number lists in Python spelling [1,2] and in the parser's own space-separated spelling [1 2] (judged "
    "against [1, 2]); <= 2 positional + <= 1 keyword (quick), <= 3 + <= 2 (thorough)",
    "two attribute dictionaries are equal when every value has the same type and value (numpy/TF values by array equality)",
]

LIT_Q = ["0", "1", "8", "-1", "1.5", "2.5e-1", "True", "None", "'auto'", '"auto"']
LIT_T = LIT_Q + ["-0.25", "1e3", "False", '"auto_po2"', "[1,2]", "[1 2]"]     # (both quote characters are in LIT_Q)
PY_SPELLING = {"[1 2]": "[1, 2]"}
CANARIES = [
    "__import__('verif_canary').fire()", "open('%s','w')", "(lambda: __import__('verif_canary').fire())()",
    "[__import__('verif_canary').fire()]", "alpha=__import__('verif_canary').fire()",
    "exec(\"import verif_canary; verif_canary.fire()\")", "__import__('os').system('touch %s')",
]


def bound(tier):
  return {"positional": 2 if tier == "quick" else 3, "keywords": 1 if tier == "quick" else 2,
          "literals": LIT_Q if tier == "quick" else LIT_T, "whitespace_styles": ["f(a,b)", "f(a, b)"],
          "print_direction": "C09 lattice, deviation<=%d" % (2 if tier == "quick" else 3)}


def worker_init():
  common.tf_init()


def enumerate_cases(tier, seed):
  lits = LIT_Q if tier == "quick" else LIT_T
  npos = 2 if tier == "quick" else 3
  out = []
  for cls in c09.CLASSES:
    for k in range(npos + 1):
      for pos in itertools.product(lits, repeat=k):
        if k == npos and tier == "thorough" and k == 3 and pos[0] not in ("1", "8", "'auto'", "[1,2]"):
          # third positional position: the first position is restricted to four literals to keep the
          # thorough space near 2*10^6 texts; every (second, third) pair still occurs with them
          continue
        out.append(dict(sub="parse", cls=cls, pos=list(pos), tier=tier))
    out.append(dict(sub="hostile", cls=cls))
    out.append(dict(sub="history", cls=cls, depth=3 if tier == "quick" else 4))
    out.append(dict(sub="order", cls=cls, tier=tier))
  for c in c09.enumerate_cases(tier, seed):
    if not c.get("registry"):
      out.append(dict(sub="print", **c))
  return out


def _namespace():
  from qkeras import quantizers as Q  # pylint: disable=import-outside-toplevel
  return {c: getattr(Q, c) for c in c09.CLASSES}


def _same(a, b):
  if type(a) is not type(b):
    return False
  if isinstance(a, dict):
    return a.keys() == b.keys() and all(_same(a[k], b[k]) for k in a)
  if isinstance(a, (list, tuple)):
    return len(a) == len(b) and all(_same(x, y) for x, y in zip(a, b))
  if hasattr(a, "numpy") or isinstance(a, np.ndarray):
    try:
      return np.array_equal(np.asarray(a), np.asarray(b), equal_nan=True)
    except Exception:  # pylint: disable=broad-except
      try:
        return np.array_equal(np.asarray(a), np.asarray(b))
      except Exception:  # pylint: disable=broad-except
        return False
  try:
    return bool(a == b) or (a != a and b != b)
  except Exception:  # pylint: disable=broad-except
    return a is b


def _vars(q):
  d = {}
  for k, v in vars(q).items():
    if k.startswith("_tf_api") or k in ("_name", "_scope_name", "_name_scope", "_setattr_tracking",
                                        "_self_setattr_tracking", "_self_unconditional_checkpoint_dependencies",
                                        "_self_unconditional_dependency_names", "_self_unconditional_deferred_dependencies",
                                        "_self_update_uid", "_self_name_based_restores", "_self_saveable_object_factories"):
      continue
    d[k] = v
  return d


def _keywords(cls):
  return [n for n, _ in c09._signature(cls)]


def run_parse(case):
  from qkeras import quantizers as Q  # pylint: disable=import-outside-toplevel
  ns = _namespace()
  cls = case["cls"]
  tier = case["tier"]
  lits = LIT_Q if tier == "quick" else LIT_T
  nkw = 1 if tier == "quick" else 2
  kws = _keywords(cls)
  viol = []
  evals = nontriv = 0
  default_vars = _vars(ns[cls]())

  def bad(clause, what, text):
    if len(viol) < 6 and not any(v["key"].endswith(clause) for v in viol):
      viol.append({"key": "parse:%s" % clause, "what": what, "detail": {"text": text}})

  kwsets = [()]
  for n in range(1, nkw + 1):
    for names in itertools.combinations(kws, n):
      if n == 2 and tier == "thorough":
        vals = itertools.product(("1", "'auto'", "[1 2]"), repeat=2)
      else:
        vals = itertools.product(lits, repeat=n)
      for vs in vals:
        kwsets.append(tuple(zip(names, vs)))
  digest_acc = []
  for kwset in kwsets:
    for sep in (",", ", "):
      parts = list(case["pos"]) + ["%s=%s" % kv for kv in kwset]
      if len(parts) < 2 and sep == ", ":
        continue
      text = cls + "(" + sep.join(parts) + ")"
      pyparts = [PY_SPELLING.get(p, p) for p in case["pos"]] + ["%s=%s" % (k, PY_SPELLING.get(v, v)) for k, v in kwset]
      pytext = cls + "(" + ", ".join(pyparts) + ")"
      evals += 1
      try:
        ref = eval(pytext, {"__builtins__": {}}, dict(ns))  # pylint: disable=eval-used
        ref_exc = None
      except Exception as e:  # pylint: disable=broad-except
        ref, ref_exc = None, type(e).__name__
      try:
        got = Q.get_quantizer(text)
        got_exc = None
      except Exception as e:  # pylint: disable=broad-except
        got, got_exc = None, type(e).__name__
      kind = _kind(case["pos"], kwset)
      if (ref_exc is None) != (got_exc is None):
        bad("raise-mismatch:" + kind,
            "%r: Python %s, get_quantizer %s" % (text, ref_exc or "constructs", got_exc or "constructs"), text)
        continue
      if ref_exc is not None:
        continue
      if type(got) is not type(ref):
        bad("class:" + kind, "%r: built a %s, Python builds a %s" % (text, type(got).__name__, type(ref).__name__), text)
        continue
      vg, vr = _vars(got), _vars(ref)
      if not _same(vg, vr):
        diff = sorted(k for k in set(vg) | set(vr) if not _same(vg.get(k), vr.get(k)))
        bad("arguments:" + kind, "%r: attributes %r differ: parsed %r, Python %r" % (
            text, diff[:3], [vg.get(k) for k in diff[:3]], [vr.get(k) for k in diff[:3]]), text)
        continue
      if not _same(vr, default_vars):
        nontriv += 1
      digest_acc.append(len(vr))
  return {"evals": evals, "transitions": evals, "nontrivial": nontriv,
          "state": "parse:%s:%r" % (cls, case["pos"]), "digest": common.digest(evals, nontriv, digest_acc[:50]),
          "violations": viol, "traces": evals,
          "sample": {"sub": "parse", "example_text": cls + "(" + ",".join(case["pos"]) + ")", "texts": evals}}


def run_history(case):
  """Every sequence (to the depth bound) of safe_eval invocations that share their argument text: plain, with a keyword
  override passed by the caller, with an extra positional parameter passed by the caller, and the same argument text
  under another class.  Parsing is a function of the call alone: each result must be what Python builds for that call."""
  from qkeras import quantizers as Q  # pylint: disable=import-outside-toplevel
  from qkeras.safe_eval import safe_eval  # pylint: disable=import-outside-toplevel
  ns = _namespace()
  cls = case["cls"]
  kws = _keywords(cls)
  other = "quantized_relu" if cls != "quantized_relu" else "quantized_bits"
  viol = []
  evals = 0
  outcomes = set()

  def bad(clause, what, text):
    if len(viol) < 6 and not any(v["key"].endswith(clause) for v in viol):
      viol.append({"key": "history:%s" % clause, "what": what, "detail": {"text": text, "cls": cls}})

  def build(fn):
    try:
      return fn(), None
    except Exception as e:  # pylint: disable=broad-except
      return None, type(e).__name__
  for argtext, pyargs in (("(4,2)", (4, 2)), ("(8)", (8,)), ("(3,1,1)", (3, 1, 1))):
    # a keyword the argument text does not already bind positionally, with a non-default value
    free = [k for k in kws[len(pyargs):]]
    ops = {
        "P": (lambda: safe_eval(cls + argtext, dict(ns)), lambda: ns[cls](*pyargs)),
        "O": (lambda: safe_eval(other + argtext, dict(ns)), lambda: ns[other](*pyargs)),
        "X": (lambda: safe_eval(cls + argtext, dict(ns), 1), lambda: ns[cls](*(pyargs + (1,)))),
    }
    if free:
      kwname = free[-1]
      ops["K"] = (lambda: safe_eval(cls + argtext, dict(ns), **{kwname: 0.125}), lambda: ns[cls](*pyargs, **{kwname: 0.125}))
      kw2 = free[0]
      ops["L"] = (lambda: safe_eval(cls + argtext, dict(ns), **{kw2: 1}), lambda: ns[cls](*pyargs, **{kw2: 1}))
    names = sorted(ops)
    for d in range(1, case["depth"] + 1):
      for hist in itertools.product(names, repeat=d):
        if "K" not in hist and "L" not in hist and "X" not in hist:
          continue       # histories without any caller-supplied argument are the parse sub-check
        for step, op in enumerate(hist):
          got, got_exc = build(ops[op][0])
          ref, ref_exc = build(ops[op][1])
          evals += 1
          outcomes.add((op, got_exc))
          label = "%s%s after %r" % (cls if op != "O" else other, argtext, list(hist[:step]))
          if (ref_exc is None) != (got_exc is None):
            bad("raise-mismatch", "%s (%s): Python %s, safe_eval %s" % (label, op, ref_exc or "constructs", got_exc or "constructs"), label)
            break
          if ref_exc is not None:
            continue
          if type(got) is not type(ref) or not _same(_vars(got), _vars(ref)):
            vg, vr = _vars(got), _vars(ref)
            diff = sorted(k for k in set(vg) | set(vr) if not _same(vg.get(k), vr.get(k)))
            bad("arguments", "%s (%s): attributes %r differ: parsed %r, Python %r" % (
                label, op, diff[:3], [vg.get(k) for k in diff[:3]], [vr.get(k) for k in diff[:3]]), label)
            break
  return {"evals": evals, "transitions": evals, "nontrivial": int(len(outcomes) > 1), "state": "history:" + cls,
          "digest": common.digest(evals, sorted(map(repr, outcomes))), "violations": viol, "traces": evals,
          "sample": {"sub": "history", "cls": cls, "calls": evals}}


def _kind(pos, kwset):
  allv = list(pos) + [v for _, v in kwset]
  if any(v == "[1,2]" for v in allv):
    return "python-list"
  if any(v == "[1 2]" for v in pos):
    return "space-list-positional"
  if any(v == "[1 2]" for v in allv):
    return "space-list"
  return "scalar"


def run_hostile(case):
  from qkeras import quantizers as Q  # pylint: disable=import-outside-toplevel
  viol = []
  d = os.environ.get("TMPDIR", "/var/tmp")
  marker = os.path.join(d, "verif_canary_%d" % os.getpid())
  moddir = os.path.join(d, "verif_canary_mod_%d" % os.getpid())
  os.makedirs(moddir, exist_ok=True)
  with open(os.path.join(moddir, "verif_canary.py"), "w") as f:
    f.write("import os\nopen(%r,'w').write('imported')\ndef fire():\n  open(%r,'w').write('fired')\n" % (marker, marker))
  sys.path.insert(0, moddir)
  n = 0
  try:
    for tpl in CANARIES:
      arg = tpl % marker if "%s" in tpl else tpl
      for text in (case["cls"] + "(" + arg + ")", case["cls"] + "(4," + arg + ")",
                   case["cls"] + "(alpha=" + arg + ")" if "=" not in arg else case["cls"] + "(" + arg + ",1)"):
        n += 1
        try:
          Q.get_quantizer(text)
        except Exception:  # pylint: disable=broad-except
          pass
        if os.path.exists(marker) or "verif_canary" in sys.modules:
          viol.append({"key": "hostile:code-executed", "what": "get_quantizer(%r) executed code" % text,
                       "detail": {"text": text}})
          if os.path.exists(marker):
            os.remove(marker)
          sys.modules.pop("verif_canary", None)
  finally:
    sys.path.remove(moddir)
    for fn in os.listdir(moddir):
      os.remove(os.path.join(moddir, fn))
    os.rmdir(moddir)
    if os.path.exists(marker):
      os.remove(marker)
  return {"evals": n, "transitions": n, "nontrivial": 1, "state": "hostile:" + case["cls"],
          "digest": common.digest(n, len(viol)), "violations": viol[:4], "traces": n,
          "sample": {"sub": "hostile", "example_text": case["cls"] + "(" + CANARIES[0] + ")"}}


def run_order(case):
  from qkeras import quantizers as Q  # pylint: disable=import-outside-toplevel
  viol = []
  kws = _keywords(case["cls"])
  lits = LIT_Q
  n = 0
  for kw in kws:
    for v in lits:
      for p in lits:
        for text in ("%s(%s=%s,%s)" % (case["cls"], kw, v, p), "%s(4, %s=%s, %s)" % (case["cls"], kw, v, p)):
          n += 1
          try:
            Q.get_quantizer(text)
          except Exception:  # pylint: disable=broad-except
            continue
          if not viol:
            viol.append({"key": "order:accepted", "what": "keyword before positional accepted: %r" % text,
                         "detail": {"text": text}})
  return {"evals": n, "transitions": n, "nontrivial": 1, "state": "order:" + case["cls"],
          "digest": common.digest(n, len(viol)), "violations": viol, "traces": n,
          "sample": {"sub": "order", "example_text": "%s(%s=1,8)" % (case["cls"], kws[0] if kws else "x")}}


def run_print(case):
  tf = common.tf_init()
  from qkeras import quantizers as Q  # pylint: disable=import-outside-toplevel
  cls = getattr(Q, case["cls"])
  viol = []
  opts = c09._materialize(case["opts"])
  names = ",".join(sorted(case["opts"])) or "defaults"

  def bad(clause, what):
    if len(viol) < 4:
      viol.append({"key": "print:%s:%s" % (case["cls"], clause), "what": "%s: %s" % (case["cls"], what),
                   "detail": {"options": case["opts"]}})
  try:
    q0 = cls(**opts)
  except (AssertionError, ValueError, TypeError):
    return {"evals": 0, "nontrivial": 0, "state": "invalid", "digest": "invalid", "violations": [],
            "info": {"invalid_configurations": 1}}
  ps = c09.probes(case["_seed"])
  base = []
  for name, x in ps:
    try:
      base.append(c09.observe(tf, cls(**opts), x))
    except (AssertionError, ValueError, TypeError, tf.errors.InvalidArgumentError):
      base.append(None)
  if all(b is None for b in base):
    return {"evals": 0, "nontrivial": 0, "state": "invalid", "digest": "invalid", "violations": [],
            "info": {"invalid_configurations": 1}}
  try:
    text = str(q0)
  except Exception as e:  # pylint: disable=broad-except
    bad("str-raises:" + type(e).__name__, "str(q) raised %s: %s (options %r)" % (type(e).__name__, str(e)[:100], case["opts"]))
    return {"evals": 1, "nontrivial": 1, "state": "print:%s:%s" % (case["cls"], names), "digest": "raise",
            "violations": viol}
  try:
    q1 = Q.get_quantizer(text)
  except Exception as e:  # pylint: disable=broad-except
    bad("reparse-raises:" + type(e).__name__, "get_quantizer(%r) raised %s: %s" % (text, type(e).__name__, str(e)[:100]))
    return {"evals": 1, "nontrivial": 1, "state": "print:%s:%s" % (case["cls"], names), "digest": "raise",
            "violations": viol}
  lost = sorted(n for n in opts if hasattr(q0, n) and hasattr(q1, n) and not c09._same_val(getattr(q0, n), getattr(q1, n)))
  evals = 0
  for (name, x), b in zip(ps, base):
    if b is None:
      continue
    evals += 1
    try:
      y, s = c09.observe(tf, Q.get_quantizer(text), x)
    except Exception as e:  # pylint: disable=broad-except
      bad("lost:" + (",".join(lost) or names) + ":call-raises", "%r re-parsed raised %s on probe %s" % (text, type(e).__name__, name))
      break
    if not np.array_equal(y, b[0]) or not c09._same_scale(s, b[1]):
      # one signature per option whose value the printed text does not carry AND whose loss is
      # observable (dropping it from the original changes the function on the probes)
      blame = []
      for lp in lost:
        o2 = {k: v for k, v in opts.items() if k != lp}
        try:
          for (n2, x2), b2 in zip(ps, base):
            if b2 is None:
              continue
            y2, s2 = c09.observe(tf, cls(**o2), x2)
            if not np.array_equal(y2, b2[0]) or not c09._same_scale(s2, b2[1]):
              blame.append(lp)
              break
        except Exception:  # pylint: disable=broad-except
          blame.append(lp)
      for lp in (blame or lost or ["?" + names]):
        bad("lost:" + lp, "str(q) = %r re-parses to a different function (options %r, probe %s)" % (
            text, case["opts"], name))
      break
  return {"evals": evals, "transitions": evals + 2, "nontrivial": int(bool(case["opts"])),
          "state": "print:%s:%r" % (case["cls"], sorted(case["opts"].items(), key=lambda kv: kv[0])),
          "digest": common.digest(text, *[b[0] for b in base if b is not None]), "violations": viol, "traces": evals,
          "sample": {"sub": "print", "options": case["opts"], "text": text}}


def run_case(case):
  if case["sub"] == "history":
    common.tf_init()
    return run_history(case)
  common.tf_init()
  common.reset_keras()
  return {"parse": run_parse, "hostile": run_hostile, "order": run_order, "print": run_print}[case["sub"]](case)

# (appended: sub-lattices added after the seeded waves; kept out of the original RULE text for readability)
RULE = RULE + "; history: every sequence (depth 3 quick / 4 thorough) of safe_eval invocations sharing their argument text - plain, with caller-supplied keyword, with caller-supplied positional argument, under another class - each judged against Python's own call"
