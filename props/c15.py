"""C15 - batch-norm folding and unfolding preserve the network function at inference.

Layer level (kernel L): {QConv2DBatchnorm, QDepthwiseConv2DBatchnorm} x folding_mode x use_bias x center x scale x
stride x padding x dilation x quantizers {none, fixed point, power of two}, each run on a 48-point alphabet of
batch-norm statistics (variance {1e-8,1e-3,1,50} x gamma {0,-0.5,1,3} x mean/beta {0,+0.7,-0.7}).
Model level (kernel P): conv+BN programs (chains, a two-branch Add diamond, a conv with two consumers):
convert_to_folded_model / model_quantize(enable_bn_folding=True) with the weights copied by variable name, and
unfold_model, must reproduce the source model's inference predictions.
"""
import numpy as np

from mc import common

ID = "C15"
TITLE = "batch-norm folding and unfolding preserve the network function at inference"
TECHNIQUE = ("exhaustive enumeration of a deviation-bounded folded-layer lattice x batch-norm statistics alphabet and of "
             "conv+BN model programs on the real layers / utilities, against stock Conv->BatchNormalization (float64 "
             "reference) and against the documented folded-weight formulas")
RULE = ("layer cases = (class, options within the deviation bound), each evaluated on all 48 statistics points and two "
        "inputs; model cases = (program, statistics set, quantizer set); evaluations = output tensors compared; non-trivial "
        "= statistics for which folding changes the kernel (inv != 1) and, with quantizers, the folded kernel is changed "
        "by quantization")
ASSUMPTIONS = [
    "tf_keras Conv2D / DepthwiseConv2D / BatchNormalization are the reference; inference only (training=False)",
    "without quantizers folded and unfolded computations differ by float32 rounding: compared at 2e-5 of the largest "
    "term; with quantizers the reference uses the documented formulas in the documented float32 op order (exact), and a "
    "float64 evaluation within 1e-4 is accepted as a fallback so that a mathematically equal refactoring is not flagged",
    "model level: weights are copied into folded layers by variable name (kernel, bias, gamma, beta, moving_mean, "
    "moving_variance); a folded layer created for a bias-less convolution gets a zero bias",
]

VARS = [1.0, 1e-8, 1e-3, 50.0]
GAMMAS = [1.0, 0.0, -0.5, 3.0]
SHIFTS = [0.0, 0.7, -0.7]
QSETS = {
    "none": (None, None),
    "fixed": ("quantized_bits(6,1,1,alpha=1)", "quantized_bits(8,3,1,alpha=1)"),
    "po2": ("quantized_po2(5)", "quantized_bits(8,3,1,alpha=1)"),
    # a bias grid fine enough (2^-11) that an error of a few 1e-3 in the folded bias survives its quantization
    "fine": ("quantized_bits(6,1,1,alpha=1)", "quantized_bits(24,12,1,alpha=1)"),
}
AXES = {
    "folding_mode": ["ema_stats_folding", "batch_stats_folding"], "use_bias": [True, False], "center": [True, False],
    "scale": [True, False], "strides": [1, 2], "padding": ["valid", "same"], "dilation_rate": [1, 2],
    "q": ["none", "fixed", "po2"], "ema_freeze_delay": [None, 0, 5],
    "depth_multiplier": [1, 2],      # depthwise class only: output channel c*dm + m belongs to input channel c
}
PROGRAMS = ["conv_bn", "dw_bn", "conv_bn_relu_dense", "conv_bn_conv_bn", "diamond_add", "conv_two_consumers",
            "conv_nobias_bn", "conv_act_bn", "conv_bn_dense_statsbn"]


def bound(tier):
  return {"layer_deviation": 2 if tier == "quick" else 3, "statistics_points": len(VARS) * len(GAMMAS) * len(SHIFTS),
          "programs": PROGRAMS, "quantizer_sets": list(QSETS)}


def worker_init():
  common.tf_init()


def enumerate_cases(tier, seed):
  k = 2 if tier == "quick" else 3
  out = []
  for cls in ("QConv2DBatchnorm", "QDepthwiseConv2DBatchnorm"):
    for g in common.dev_product(AXES, k):
      if g["dilation_rate"] > 1 and g["strides"] > 1:
        continue
      if cls == "QConv2DBatchnorm" and g["depth_multiplier"] != 1:
        continue
      out.append(dict(sub="layer", cls=cls, g=g, _seed=seed))
  for prog in PROGRAMS:
    for si in range(4):
      if si == 3 and prog not in ("conv_bn", "dw_bn", "conv_bn_conv_bn"):
        continue      # stats 3: conv bias and moving mean both near 3000 and nearly equal, small variance (cancellation)
      for q in (("fixed", "po2") if si != 3 else ("fine",)):
        out.append(dict(sub="model", prog=prog, stats=si, q=q, _seed=seed))
        if prog in ("conv_bn_relu_dense", "conv_bn_dense_statsbn") and q == "fixed":
          # the folded model in a non-initial state before it is unfolded: layers that are NOT folded frozen (fine-tuning),
          # the whole model frozen (export): unfolding is a function of the weights, not of their trainable flags
          for st in ("head-frozen", "model-frozen"):
            out.append(dict(sub="model", prog=prog, stats=si, q=q, unfold_state=st, _seed=seed))
  # history: folded layers built WITHOUT a bias quantizer, then populate_bias_quantizer_from_accumulator, then
  # inference / unfolding: the quantizer the layer reports for its bias is the one it applies
  for cls in ("QConv2DBatchnorm", "QDepthwiseConv2DBatchnorm"):
    for si in range(3):
      out.append(dict(sub="populate", cls=cls, stats=si, _seed=seed))
  return out


def _set_by_name(layer, values):
  """values: dict substring -> array; variables are matched by name."""
  new = []
  for v in layer.weights:
    nm = v.name.split("/")[-1].split(":")[0]
    hit = [k for k in values if k == nm or (k in nm and k != "bias")] or [k for k in values if k == "bias" and nm == "bias"]
    if "iteration" in nm:
      new.append(np.asarray(v.numpy()))
    elif hit:
      new.append(np.asarray(values[hit[0]], dtype=v.dtype.as_numpy_dtype).reshape(v.shape))
    else:
      new.append(v.numpy())
  layer.set_weights(new)


def run_layer(case):
  tf = common.tf_init()
  import qkeras  # pylint: disable=import-outside-toplevel
  from tensorflow.python.ops import math_ops  # pylint: disable=import-outside-toplevel
  cls, g = case["cls"], case["g"]
  viol = []

  def bad(clause, what, **d):
    tag = "quantized" if g["q"] != "none" else "no-quantizers"
    key = "%s:%s:%s" % (cls, clause, tag)
    if len(viol) < 5 and not any(v["key"] == key for v in viol):
      viol.append({"key": key, "what": "%s %s: %s (options %r)" % (cls, clause, what, g), "detail": dict(case=case, **d)})
  kq, bq = QSETS[g["q"]]
  cin, cout = 3, 2
  kw = dict(kernel_size=2, strides=g["strides"], padding=g["padding"], dilation_rate=g["dilation_rate"],
            use_bias=g["use_bias"], center=g["center"], scale=g["scale"], folding_mode=g["folding_mode"],
            ema_freeze_delay=g["ema_freeze_delay"], bias_quantizer=bq, name="fold")
  L = tf.keras.layers
  if cls == "QConv2DBatchnorm":
    layer = qkeras.QConv2DBatchnorm(filters=cout, kernel_quantizer=kq, **kw)
    stock = L.Conv2D(cout, 2, strides=g["strides"], padding=g["padding"], dilation_rate=g["dilation_rate"],
                     use_bias=g["use_bias"], name="stock")
    nch = cout
  else:
    dm = g.get("depth_multiplier", 1)
    layer = qkeras.QDepthwiseConv2DBatchnorm(depthwise_quantizer=kq, depth_multiplier=dm, **kw)
    stock = L.DepthwiseConv2D(2, strides=g["strides"], padding=g["padding"], dilation_rate=g["dilation_rate"],
                              use_bias=g["use_bias"], depth_multiplier=dm, name="stock")
    nch = cin * dm
  shape = (2, 6, 6, cin)
  xs = [common.tensor(shape, "ramp", case["_seed"]), common.tensor(shape, "grid7", case["_seed"])]
  try:
    layer(tf.constant(xs[0]), training=False)
  except Exception as e:  # pylint: disable=broad-except
    bad("first-call-raises:%s" % type(e).__name__, "calling the layer raised %s: %s" % (type(e).__name__, str(e)[:160]))
    return {"evals": 1, "nontrivial": 1, "state": "layer:%s:%r" % (cls, sorted(g.items(), key=lambda kv: kv[0])),
            "digest": "raise", "violations": viol}
  stock(tf.constant(xs[0]))
  kshape = stock.get_weights()[0].shape
  kernel = common.tensor(kshape, "grid7", case["_seed"]) * np.float32(0.6)
  bias = (common.tensor((nch,), "ramp", case["_seed"]) * np.float32(0.3)).astype(np.float32)
  stock.set_weights([kernel] + ([bias] if g["use_bias"] else []))
  eps = layer.batchnorm.epsilon
  qk = layer.get_quantizers()[0]
  qb = layer.get_quantizers()[1]
  evals = nontriv = 0
  digests = []
  for var in VARS:
    for gam in GAMMAS:
      for sh in SHIFTS:
        gamma = np.full((nch,), gam, dtype=np.float32) * (1 + np.arange(nch, dtype=np.float32) * np.float32(0.25))
        beta = np.full((nch,), sh, dtype=np.float32) - np.arange(nch, dtype=np.float32) * np.float32(0.1)
        mean = np.full((nch,), -sh, dtype=np.float32) + np.arange(nch, dtype=np.float32) * np.float32(0.05)
        variance = np.full((nch,), var, dtype=np.float32) * (1 + np.arange(nch, dtype=np.float32))
        vals = {"kernel": kernel, "bias": bias, "gamma": gamma, "beta": beta, "moving_mean": mean,
                "moving_variance": variance}
        _set_by_name(layer, vals)
        g_eff = gamma if g["scale"] else np.ones((nch,), dtype=np.float32)
        b_eff = beta if g["center"] else np.zeros((nch,), dtype=np.float32)
        bias_eff = bias if g["use_bias"] else np.zeros((nch,), dtype=np.float32)
        for x in xs:
          y = np.asarray(layer(tf.constant(x), training=False), dtype=np.float32)
          digests.append(common.digest(y))
          evals += 1
          conv = np.asarray(stock(tf.constant(x)), dtype=np.float64)       # includes the bias
          inv64 = g_eff.astype(np.float64) / np.sqrt(variance.astype(np.float64) + eps)
          if g["q"] == "none":
            ref = (conv - mean) * inv64 + b_eff
            scale = np.max(np.abs(conv) * np.abs(inv64)) + np.max(np.abs(b_eff)) + np.max(np.abs(mean * inv64)) + 1e-6
            if not np.allclose(y, ref, rtol=0, atol=2e-5 * scale):
              bad("folded==conv->bn", "var=%g gamma=%g shift=%g: max |folded - BN(conv)| = %g (tolerance %g)" % (
                  var, gam, sh, float(np.max(np.abs(y - ref))), 2e-5 * scale))
            if np.any(np.abs(inv64 - 1) > 1e-3):
              nontriv = 1
          else:
            # documented formulas in the documented float32 order
            inv = math_ops.rsqrt(tf.constant(variance) + eps)
            if g["scale"]:
              inv = inv * tf.constant(gamma)
            if cls == "QConv2DBatchnorm":
              fk = inv * tf.constant(kernel)
            else:
              fk = tf.reshape(inv, (1, 1, cin, nch // cin)) * tf.constant(kernel)
            fb = inv * (tf.constant(bias_eff) - tf.constant(mean)) + tf.constant(b_eff)
            qfk = np.asarray(qk(fk), dtype=np.float32) if qk is not None else np.asarray(fk)
            qfb = np.asarray(qb(fb), dtype=np.float32) if qb is not None else np.asarray(fb)
            stock.set_weights([qfk] + ([np.zeros((nch,), dtype=np.float32)] if g["use_bias"] else []))
            ref = np.asarray(stock(tf.constant(x)), dtype=np.float32) + qfb
            stock.set_weights([kernel] + ([bias] if g["use_bias"] else []))
            if not np.array_equal(y, ref):
              # fallback: float64 evaluation of the same formulas
              fk64 = (inv64.reshape((1, 1, cin, nch // cin)) if cls != "QConv2DBatchnorm" else inv64) * kernel.astype(np.float64)
              fb64 = inv64 * (bias_eff.astype(np.float64) - mean) + b_eff
              qfk64 = np.asarray(qk(fk64.astype(np.float32)), dtype=np.float32) if qk is not None else fk64.astype(np.float32)
              qfb64 = np.asarray(qb(fb64.astype(np.float32)), dtype=np.float32) if qb is not None else fb64.astype(np.float32)
              stock.set_weights([qfk64] + ([np.zeros((nch,), dtype=np.float32)] if g["use_bias"] else []))
              ref2 = np.asarray(stock(tf.constant(x)), dtype=np.float32) + qfb64
              stock.set_weights([kernel] + ([bias] if g["use_bias"] else []))
              if not np.allclose(y, ref2, rtol=0, atol=1e-4 * (np.max(np.abs(ref2)) + 1e-6)):
                bad("folded==conv(q(folded kernel))+q(folded bias)", "var=%g gamma=%g shift=%g: max |d| = %g" % (
                    var, gam, sh, float(np.max(np.abs(y.astype(np.float64) - ref)))))
            if np.any(qfk != np.asarray(fk)):
              nontriv = 1
          # get_folded_weights reports the documented folded weights
        fw = layer.get_folded_weights()
        fk_ref = (inv64.reshape((1, 1, cin, nch // cin)) if cls != "QConv2DBatchnorm" else inv64) * kernel.astype(np.float64)
        fb_ref = inv64 * (bias_eff.astype(np.float64) - mean) + b_eff
        evals += 1
        if not (np.allclose(np.asarray(fw[0]), fk_ref, rtol=2e-5, atol=1e-6 * (np.max(np.abs(fk_ref)) + 1e-9)) and
                np.allclose(np.asarray(fw[1]), fb_ref, rtol=2e-5, atol=2e-5 * (np.max(np.abs(fb_ref)) + np.max(np.abs(mean * inv64)) + 1e-6))):
          bad("get_folded_weights", "var=%g gamma=%g shift=%g: folded weights differ from kernel*gamma/sqrt(var+eps), "
              "(bias-mean)*gamma/sqrt(var+eps)+beta" % (var, gam, sh))
  return {"evals": evals, "transitions": evals, "nontrivial": nontriv,
          "state": "layer:%s:%r" % (cls, sorted(g.items(), key=lambda kv: kv[0])), "digest": common.digest(digests),
          "violations": viol, "traces": evals, "sample": {"sub": "layer", "cls": cls, "options": g, "statistics_points": 48}}


def build_program(prog):
  tf = common.tf_init()
  L = tf.keras.layers
  inp = L.Input((6, 6, 3), name="inp")
  fold = []
  if prog == "conv_bn":
    x = L.Conv2D(2, 2, name="c1")(inp); x = L.BatchNormalization(name="b1")(x); fold = [("c1", "b1")]
  elif prog == "dw_bn":
    x = L.DepthwiseConv2D(2, name="c1")(inp); x = L.BatchNormalization(name="b1")(x); fold = [("c1", "b1")]
  elif prog == "conv_nobias_bn":
    x = L.Conv2D(2, 2, use_bias=False, name="c1")(inp); x = L.BatchNormalization(name="b1")(x); fold = [("c1", "b1")]
  elif prog == "conv_bn_relu_dense":
    x = L.Conv2D(2, 2, name="c1")(inp); x = L.BatchNormalization(name="b1")(x); x = L.ReLU(name="r1")(x)
    x = L.Flatten(name="f")(x); x = L.Dense(3, name="d1")(x); fold = [("c1", "b1")]
  elif prog == "conv_bn_dense_statsbn":
    # a stand-alone batch normalisation without affine parameters has weights (the statistics) but no trainable one
    x = L.Conv2D(2, 2, name="c1")(inp); x = L.BatchNormalization(name="b1")(x); x = L.Flatten(name="f")(x)
    x = L.Dense(3, name="d1")(x); x = L.BatchNormalization(center=False, scale=False, name="b2")(x); fold = [("c1", "b1")]
  elif prog == "conv_bn_conv_bn":
    x = L.Conv2D(2, 2, name="c1")(inp); x = L.BatchNormalization(name="b1")(x)
    x = L.DepthwiseConv2D(2, name="c2")(x); x = L.BatchNormalization(name="b2")(x); fold = [("c1", "b1"), ("c2", "b2")]
  elif prog == "diamond_add":
    a = L.Conv2D(2, 2, name="c1")(inp); a = L.BatchNormalization(name="b1")(a)
    b = L.Conv2D(2, 2, name="c2")(inp); b = L.BatchNormalization(name="b2")(b)
    x = L.Add(name="add")([a, b]); fold = [("c1", "b1"), ("c2", "b2")]
  elif prog == "conv_two_consumers":
    c = L.Conv2D(2, 2, name="c1")(inp)
    a = L.BatchNormalization(name="b1")(c)
    x = L.Add(name="add")([a, c]); fold = []        # the conv output is used twice: not foldable
  else:  # conv_act_bn: an activation between conv and BN: not foldable
    x = L.Conv2D(2, 2, name="c1")(inp); x = L.ReLU(name="r1")(x); x = L.BatchNormalization(name="b1")(x); fold = []
  if len(x.shape) > 2:
    x = L.Flatten(name="flat")(x)
  return tf.keras.Model(inp, x), fold


def run_model(case):
  tf = common.tf_init()
  from qkeras import utils as qutils  # pylint: disable=import-outside-toplevel
  from qkeras import bn_folding_utils  # pylint: disable=import-outside-toplevel
  viol = []

  def bad(clause, what):
    key = "model:%s" % clause
    if len(viol) < 5 and not any(v["key"] == key for v in viol):
      viol.append({"key": key, "what": "%s (program %s)" % (what, case["prog"]), "detail": {"case": case}})
  model, fold = build_program(case["prog"])
  si = case["stats"]
  for i, l in enumerate(model.layers):
    ws = l.get_weights()
    if not ws:
      continue
    new = []
    for j, w in enumerate(ws):
      nm = l.weights[j].name
      v = common.tensor(w.shape, "grid7", i + j + case["_seed"]) * np.float32(0.6)
      s2 = min(si, 2)
      if "moving_variance" in nm:
        v = (np.abs(v) + np.float32([1.0, 1e-3, 20.0][s2])).astype(np.float32)
      elif "gamma" in nm:
        v = v + np.float32([1.0, -0.5, 2.0][s2])
      elif w.ndim == 1:
        v = v * np.float32(0.5) + np.float32(0.1 * s2)
      if si == 3 and w.ndim == 1:
        ar = np.arange(w.shape[0], dtype=np.float32)
        if "moving_mean" in nm:
          v = np.float32(3000.0) + np.float32(0.5) * ar
        elif "moving_variance" in nm:
          v = np.float32(0.01) * (1 + ar)
        elif "bias" in nm:
          v = np.float32(3000.0) + np.float32(0.5) * ar + np.float32(0.01) * (ar + 1)
      new.append(v.astype(np.float32))
    l.set_weights(new)
  xs = [common.tensor((2, 6, 6, 3), "ramp", case["_seed"]), common.tensor((2, 6, 6, 3), "grid7", case["_seed"])]
  y0 = [np.asarray(model(tf.constant(x), training=False), dtype=np.float64) for x in xs]
  evals = 0
  # --- which layers are folded ---------------------------------------------------------------
  fm, to_fold = qutils.convert_to_folded_model(model)
  evals += 1
  if sorted(to_fold) != sorted(c for c, _ in fold):
    bad("layers-to-fold", "convert_to_folded_model folds %r, the conv layers followed only by a batch normalisation are %r" % (
        sorted(to_fold), sorted(c for c, _ in fold)))
  kq, bq = QSETS[case["q"]]
  qcfg = {"QConv2DBatchnorm": {"kernel_quantizer": kq, "bias_quantizer": bq},
          "QDepthwiseConv2DBatchnorm": {"depthwise_quantizer": kq, "bias_quantizer": bq}}
  qm = qutils.model_quantize(model, qcfg, 4, enable_bn_folding=True)
  # copy weights by variable name
  for c, b in fold:
    ql = qm.get_layer(c)
    src_c, src_b = model.get_layer(c), model.get_layer(b)
    vals = {}
    for v in src_c.weights + src_b.weights:
      vals[v.name.split("/")[-1].split(":")[0]] = v.numpy()
    vals.setdefault("bias", np.zeros(ql.weights[1].shape, dtype=np.float32))
    _set_by_name(ql, vals)
  for l in qm.layers:
    if l.name not in [c for c, _ in fold] and l.get_weights():
      l.set_weights(model.get_layer(l.name).get_weights())
  if fold:
    if any(qm.get_layer(c).__class__.__name__ not in ("QConv2DBatchnorm", "QDepthwiseConv2DBatchnorm") for c, _ in fold):
      bad("folded-class", "model_quantize(enable_bn_folding=True) did not create folded layers: %r" % (
          [qm.get_layer(c).__class__.__name__ for c, _ in fold],))
    else:
      # --- unfolding (quantizers active): exact ----------------------------------------------------
      if case.get("unfold_state") == "head-frozen":
        for l in qm.layers:
          if l.name not in [c for c, _ in fold] and l.get_weights():
            l.trainable = False
      elif case.get("unfold_state") == "model-frozen":
        qm.trainable = False
      um = bn_folding_utils.unfold_model(qm)
      yq = [np.asarray(qm(tf.constant(x), training=False), dtype=np.float32) for x in xs]
      yu = [np.asarray(um(tf.constant(x), training=False), dtype=np.float32) for x in xs]
      evals += len(xs)
      for a, b in zip(yq, yu):
        if not np.array_equal(a, b) and not np.allclose(a, b, rtol=0, atol=1e-5 * (np.max(np.abs(a)) + 1e-6)):
          bad("unfold", "unfold_model changes the inference predictions (max |d| = %g)" % float(np.max(np.abs(a.astype(np.float64) - b))))
          break
      if any(l.__class__.__name__.endswith("Batchnorm") for l in um.layers):
        bad("unfold-leaves-folded-layers", "unfold_model left folded layers in the model")
      # --- history: the SAME folded model is unfolded again after its weights were replaced (set_weights: the layer's
      # iteration counter does not move): unfolding is a function of the current weights
      saved = {c: qm.get_layer(c).get_weights() for c, _ in fold}
      for c, _ in fold:
        ql = qm.get_layer(c)
        ql.set_weights([w if w.ndim == 0 else (w * np.float32(0.5) + np.float32(0.0625)).astype(np.float32) if i == 0 else w
                        for i, w in enumerate(ql.get_weights())])
      um2 = bn_folding_utils.unfold_model(qm)
      yq2 = [np.asarray(qm(tf.constant(x), training=False), dtype=np.float32) for x in xs]
      yu2 = [np.asarray(um2(tf.constant(x), training=False), dtype=np.float32) for x in xs]
      evals += len(xs)
      for a, b in zip(yq2, yu2):
        if not np.array_equal(a, b) and not np.allclose(a, b, rtol=0, atol=1e-5 * (np.max(np.abs(a)) + 1e-6)):
          bad("unfold-after-set_weights", "a second unfold_model after the folded layers' kernels were replaced changes the "
              "predictions (max |d| = %g)" % float(np.max(np.abs(a.astype(np.float64) - b))))
          break
      if all(np.array_equal(a, b) for a, b in zip(yq, yq2)):
        bad("harness:weights-not-changed", "replacing the kernel did not change the folded model's predictions")
      for c, ws in saved.items():
        qm.get_layer(c).set_weights(ws)
      # --- folding algebra with the quantizers switched off on the folded layers ----------------------
      for c, _ in fold:
        ql = qm.get_layer(c)
        for attr in ("kernel_quantizer", "depthwise_quantizer", "bias_quantizer", "kernel_quantizer_internal",
                     "depthwise_quantizer_internal", "bias_quantizer_internal"):
          if hasattr(ql, attr):
            setattr(ql, attr, None)
      yf = [np.asarray(qm(tf.constant(x), training=False), dtype=np.float64) for x in xs]
      evals += len(xs)
      # (statistics 3: the SOURCE model adds a bias near 3000 to the convolution in float32 before the normalisation and
      # loses the low bits itself; only the unfold clause is judged there)
      for a, b in zip(yf, y0 if si != 3 else yf):
        if not np.allclose(a, b, rtol=0, atol=5e-5 * (np.max(np.abs(b)) + 1.0)):
          bad("convert-to-folded", "the folded model (weights copied by name, quantizers off) differs from the source "
              "conv+BN model at inference (max |d| = %g)" % float(np.max(np.abs(a - b))))
          break
  else:
    evals += 1
    yq = [np.asarray(qm(tf.constant(x), training=False), dtype=np.float64) for x in xs]
    if any(not np.allclose(a, b, rtol=0, atol=1e-6) for a, b in zip(yq, y0)):
      bad("nothing-to-fold", "nothing is foldable, but model_quantize(enable_bn_folding=True) changed the predictions")
  return {"evals": evals, "transitions": evals, "nontrivial": int(bool(fold)),
          "state": "model:%s:%d:%s:%s" % (case["prog"], si, case["q"], case.get("unfold_state", "")), "digest": common.digest(*y0), "violations": viol,
          "traces": evals, "sample": {"sub": "model", "program": case["prog"], "foldable_pairs": fold}}


def run_populate(case):
  tf = common.tf_init()
  import qkeras  # pylint: disable=import-outside-toplevel
  from qkeras import bn_folding_utils  # pylint: disable=import-outside-toplevel
  from tensorflow.python.ops import math_ops  # pylint: disable=import-outside-toplevel
  viol = []

  def bad(clause, what):
    key = "populate:%s:%s" % (case["cls"], clause)
    if not any(v["key"] == key for v in viol):
      viol.append({"key": key, "what": "%s after populate_bias_quantizer_from_accumulator: %s" % (case["cls"], what),
                   "detail": {"case": case}})
  L = tf.keras.layers
  inp = L.Input((6, 6, 3), name="inp")
  kq = "quantized_bits(6,1,1,alpha=1)"
  if case["cls"] == "QConv2DBatchnorm":
    lyr = qkeras.QConv2DBatchnorm(2, 2, kernel_quantizer=kq, bias_quantizer=None, name="fold")
    nch = 2
  else:
    lyr = qkeras.QDepthwiseConv2DBatchnorm(2, depthwise_quantizer=kq, bias_quantizer=None, name="fold")
    nch = 3
  x = lyr(inp)
  x = L.Flatten(name="flat")(x)
  model = tf.keras.Model(inp, x)
  si = case["stats"]
  kernel = common.tensor(lyr.get_weights()[0].shape, "grid7", case["_seed"]) * np.float32(0.6)
  ar = np.arange(nch, dtype=np.float32)
  vals = {"kernel": kernel, "bias": (0.37 * ar - 0.2).astype(np.float32), "gamma": (np.float32([1.0, -0.5, 2.0][si]) + 0.25 * ar),
          "beta": (0.3 - 0.1 * ar).astype(np.float32), "moving_mean": (0.05 * ar - 0.4 * si).astype(np.float32),
          "moving_variance": (np.float32([1.0, 1e-3, 20.0][si]) * (1 + ar)).astype(np.float32)}
  _set_by_name(lyr, vals)
  from qkeras import quantizers as Q  # pylint: disable=import-outside-toplevel
  model = bn_folding_utils.populate_bias_quantizer_from_accumulator(model, [Q.quantized_bits(4, 1, 1)])
  lyr = model.get_layer("fold")
  qs = lyr.get_quantizers()
  evals = 1
  if qs[1] is None:
    bad("no-bias-quantizer", "the layer still reports no bias quantizer")
    return {"evals": evals, "nontrivial": 0, "state": "populate:%s:%d" % (case["cls"], si), "digest": "none", "violations": viol}
  xs = [common.tensor((2, 6, 6, 3), "ramp", case["_seed"]), common.tensor((2, 6, 6, 3), "grid7", case["_seed"])]
  eps = lyr.batchnorm.epsilon
  inv = math_ops.rsqrt(tf.constant(vals["moving_variance"]) + eps) * tf.constant(vals["gamma"].astype(np.float32))
  fk = (inv if case["cls"] == "QConv2DBatchnorm" else tf.reshape(inv, (1, 1, nch, 1))) * tf.constant(kernel)
  fb = inv * (tf.constant(vals["bias"]) - tf.constant(vals["moving_mean"])) + tf.constant(vals["beta"])
  qfk = np.asarray(qs[0](fk), dtype=np.float32)
  qfb = np.asarray(qs[1](fb), dtype=np.float32)
  stock = (L.Conv2D(2, 2, use_bias=False) if case["cls"] == "QConv2DBatchnorm" else L.DepthwiseConv2D(2, use_bias=False))
  stock(tf.constant(xs[0]))
  stock.set_weights([qfk])
  um = bn_folding_utils.unfold_model(model)
  changed = bool(np.any(qfb != np.asarray(fb)))
  for x in xs:
    evals += 2
    y = np.asarray(model(tf.constant(x), training=False), dtype=np.float32)
    ref = (np.asarray(stock(tf.constant(x)), dtype=np.float32) + qfb).reshape(y.shape)
    if not np.array_equal(y, ref) and not np.allclose(y, ref, rtol=0, atol=1e-5 * (np.max(np.abs(ref)) + 1e-6)):
      bad("reported-bias-quantizer-not-applied", "output differs from conv(q(folded kernel)) + q_b(folded bias) with the bias "
          "quantizer %s the layer reports (max |d| = %g)" % (qs[1], float(np.max(np.abs(y.astype(np.float64) - ref)))))
    yu = np.asarray(um(tf.constant(x), training=False), dtype=np.float32)
    if not np.array_equal(y, yu) and not np.allclose(y, yu, rtol=0, atol=1e-5 * (np.max(np.abs(y)) + 1e-6)):
      bad("unfold", "unfold_model changes the predictions (max |d| = %g)" % float(np.max(np.abs(y.astype(np.float64) - yu))))
  return {"evals": evals, "transitions": evals, "nontrivial": int(changed), "state": "populate:%s:%d" % (case["cls"], si),
          "digest": common.digest(qfb, str(qs[1])), "violations": viol, "traces": evals,
          "sample": {"sub": "populate", "cls": case["cls"], "bias_quantizer_after_populate": str(qs[1])}}


def run_case(case):
  common.tf_init()
  common.reset_keras()
  if case["sub"] == "populate":
    return run_populate(case)
  return run_layer(case) if case["sub"] == "layer" else run_model(case)

# (appended: sub-lattices added after the seeded waves; kept out of the original RULE text for readability)
RULE = RULE + '; the depthwise class also with depth_multiplier 2; model programs also with frozen / statistics-only layers before unfolding and a second unfold after the folded kernels were replaced; populate histories'
RULE = RULE + '; model programs also at a statistics point with conv bias and moving mean both near 3000 on a 2^-11 bias grid (unfold clause)'
