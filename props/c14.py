"""C14 - exported quantized weights equal inference weights and rebuild from HW form.

Kernel P x H2.  Programs: chains of 1-2 weight-bearing quantized layers (x kernel quantizer kind x bias
quantizer x use_bias x optional fusable QBatchNormalization).  Histories over the operations
{export = model_save_quantized_weights, freeze = clone_model_and_freeze_auto_po2_scale}:
[export], [export, export], [freeze, export], [freeze, export, export]; after every export the model
weights, the returned dictionary and the predictions are compared with an independent recomputation.
"""
import copy

import numpy as np

from mc import common

ID = "C14"
TITLE = "exported quantized weights equal inference weights and rebuild from HW form"
TECHNIQUE = ("exhaustive enumeration of bounded chain programs x quantizer kinds x all export/freeze histories on the "
             "real utilities; independent recomputation of quantized weights, po2 / auto-po2 / batch-norm-fusing "
             "dictionary relations, prediction and idempotence oracles")
RULE = ("cases = (layer kinds, kernel quantizer kind, bias quantizer, use_bias, batch-norm); each explores the 4 histories; "
        "states = (model, dictionary) pairs reached; evaluations = tensors / relations compared; non-trivial = the export "
        "changed at least one weight tensor and the dictionary carries a sign, scale or fusing entry")
ASSUMPTIONS = [
    "tf_keras and TensorFlow kernels are trusted; quantizer copies are rebuilt from get_config() (C09)",
    "data-independent scale = fixed point with constant alpha, power-of-two quantizers, constant-scale binary/ternary, or "
    "auto_po2 frozen by clone_model_and_freeze_auto_po2_scale; only then prediction equality and idempotence are judged",
    "batch-norm algebra compared in float64 at relative 1e-6",
    "freeze histories only for the layer classes the freezing utility documents (QConv2D, QDepthwiseConv2D, QDense, "
    "QBatchNormalization chains)",
]

KQS = {
    "fixed": "quantized_bits(4,0,1,alpha=1)",
    "auto_po2": "quantized_bits(6,1,1,alpha='auto_po2')",
    "auto_po2_default": "quantized_bits(4,0,1)",     # alpha=None is promoted to auto_po2 by the layer
    # 3 bits on bell-shaped weights: the data-dependent scale is not idempotent, so a scale that is only nominally
    # frozen shows up as a change of predictions / a different second export
    "auto_po2_3bit": "quantized_bits(3,0,1,alpha='auto_po2')",
    "po2": "quantized_po2(4)",
    "po2_wide": "quantized_po2(8)",            # exponents down to -64: zero weights are stored as 2^-64
    "relu_po2": "quantized_relu_po2(4)",
    # max_value that is not a power of two (the clip acts on the exponent): the stored weight must stay sign*2^exponent
    "po2_mv3": "quantized_po2(4,max_value=0.75)",
    "relu_po2_mv": "quantized_relu_po2(4,max_value=0.375)",
    "binary_const": "binary(alpha=1)",
    "binary_auto": "binary(alpha='auto')",
    "ternary_const": "ternary(alpha=1)",
    "ternary_auto": "ternary(alpha='auto')",
}
BQS = {"fixed": "quantized_bits(6,2,1,alpha=1)", "po2": "quantized_po2(5)", "none": None}
# "QConv2D_g2": grouped convolution (groups=2); "QBidirectional_bw": explicit backward layer with ITS OWN kernel quantizer
KINDS = ["QDense", "QConv2D", "QDepthwiseConv2D", "QConv1D", "QSeparableConv2D", "QSimpleRNN", "QLSTM", "QGRU", "QBidirectional",
         "QConv2D_g2", "QBidirectional_bw"]
DATA_INDEP = {"fixed", "po2", "po2_wide", "po2_mv3", "relu_po2_mv", "relu_po2", "binary_const", "ternary_const"}
FREEZABLE = {"QDense", "QConv2D", "QDepthwiseConv2D"}
HISTORIES = [["export"], ["export", "export"], ["freeze", "export"], ["freeze", "export", "export"]]


def bound(tier):
  return {"chain_length": 1 if tier == "quick" else 2, "layer_kinds": KINDS, "kernel_quantizers": list(KQS),
          "bias_quantizers": list(BQS), "histories": HISTORIES}


def worker_init():
  common.tf_init()


def enumerate_cases(tier, seed):
  out = []
  for kind in KINDS:
    for kq in KQS:
      for bq in BQS:
        for use_bias in (True, False):
          if not use_bias and bq != "fixed":
            continue
          for bn in ((False, True) if kind in ("QConv2D", "QDepthwiseConv2D", "QDense") else (False,)):
            if tier == "quick":
              # quick slice: every (kind, kernel quantizer) once with a po2 bias (the mixed-quantizer dictionary layout),
              # fixed / no bias quantizer and use_bias=False on QDense, batch-norm fusing on QConv2D
              keep = (bq == "po2" and use_bias and not bn) or (kind == "QDense" and not bn) or \
                     (kind == "QConv2D" and bn and bq in ("fixed", "po2") and use_bias)
              if not keep:
                continue
            out.append(dict(layers=[dict(kind=kind, kq=kq, bq=bq, use_bias=use_bias, bn=bn)], _seed=seed))
  if tier == "thorough":
    for k1 in ("QConv2D", "QDepthwiseConv2D"):
      for k2 in ("QConv2D", "QDense"):
        for kq1 in KQS:
          for kq2 in ("fixed", "auto_po2", "po2", "ternary_auto"):
            for bn in (False, True):
              out.append(dict(layers=[dict(kind=k1, kq=kq1, bq="fixed", use_bias=True, bn=bn),
                                      dict(kind=k2, kq=kq2, bq="po2", use_bias=True, bn=False)], _seed=seed))
  return out


def build(case):
  tf = common.tf_init()
  import qkeras  # pylint: disable=import-outside-toplevel
  L = tf.keras.layers
  first = case["layers"][0]["kind"]
  shape = {"QDense": (5,), "QConv1D": (6, 3), "QSimpleRNN": (4, 3), "QLSTM": (4, 3), "QGRU": (4, 3),
           "QBidirectional": (4, 3), "QBidirectional_bw": (4, 3), "QConv2D_g2": (6, 6, 4)}.get(first, (6, 6, 3))
  x = inp = L.Input(shape, name="inp")
  for i, ly in enumerate(case["layers"]):
    kq, bq = KQS[ly["kq"]], BQS[ly["bq"]]
    kind = ly["kind"]
    name = "l%d" % i
    if kind == "QDense":
      if len(x.shape) > 2:
        x = L.Flatten(name="flat%d" % i)(x)
      x = qkeras.QDense(3, kernel_quantizer=kq, bias_quantizer=bq, use_bias=ly["use_bias"], name=name)(x)
    elif kind == "QConv2D":
      x = qkeras.QConv2D(2, 2, kernel_quantizer=kq, bias_quantizer=bq, use_bias=ly["use_bias"], name=name)(x)
    elif kind == "QConv2D_g2":
      x = qkeras.QConv2D(4, 2, groups=2, kernel_quantizer=kq, bias_quantizer=bq, use_bias=ly["use_bias"], name=name)(x)
    elif kind == "QBidirectional_bw":
      bw_kq = KQS["fixed"] if ly["kq"] != "fixed" else KQS["po2"]
      x = qkeras.QBidirectional(
          qkeras.QLSTM(2, kernel_quantizer=kq, recurrent_quantizer=KQS["fixed"], bias_quantizer=bq, use_bias=ly["use_bias"],
                       name="inner%d" % i),
          backward_layer=qkeras.QLSTM(2, kernel_quantizer=bw_kq, recurrent_quantizer=KQS["po2"], bias_quantizer=bq,
                                      use_bias=ly["use_bias"], go_backwards=True, name="inner_bw%d" % i), name=name)(x)
    elif kind == "QDepthwiseConv2D":
      x = qkeras.QDepthwiseConv2D(2, depthwise_quantizer=kq, bias_quantizer=bq, use_bias=ly["use_bias"], name=name)(x)
    elif kind == "QConv1D":
      x = qkeras.QConv1D(2, 2, kernel_quantizer=kq, bias_quantizer=bq, use_bias=ly["use_bias"], name=name)(x)
    elif kind == "QSeparableConv2D":
      x = qkeras.QSeparableConv2D(2, 2, depthwise_quantizer=kq, pointwise_quantizer=KQS["fixed"], bias_quantizer=bq,
                                  use_bias=ly["use_bias"], name=name)(x)
    elif kind == "QBidirectional":
      x = qkeras.QBidirectional(qkeras.QLSTM(2, kernel_quantizer=kq, recurrent_quantizer=KQS["fixed"], bias_quantizer=bq,
                                             use_bias=ly["use_bias"], name="inner%d" % i), name=name)(x)
    else:
      extra = dict(reset_after=False) if kind == "QGRU" else {}
      x = getattr(qkeras, kind)(2, kernel_quantizer=kq, recurrent_quantizer=KQS["fixed"], bias_quantizer=bq,
                                use_bias=ly["use_bias"], name=name, **extra)(x)
    if ly["bn"]:
      x = qkeras.QBatchNormalization(name="bn%d" % i)(x)
  if len(x.shape) > 2:
    x = L.Flatten(name="flat_out")(x)
  model = tf.keras.Model(inp, x)
  set_weights(model, case["_seed"], {"l%d" % i: ly["kq"] for i, ly in enumerate(case["layers"])})
  return model, (2,) + shape


def set_weights(model, seed, kq_of=None):
  for i, l in enumerate(model.layers):
    ws = l.get_weights()
    if not ws:
      continue
    new = []
    for j, w in enumerate(ws):
      if (kq_of or {}).get(l.name) == "auto_po2_3bit" and w.ndim > 1:
        v = common.tensor(w.shape, "bell", i + j + seed)
      else:
        v = common.tensor(w.shape, "grid7", i + j + seed) * np.float32(0.8)
      nm = l.weights[j].name
      if "variance" in nm:
        v = np.abs(v) + np.float32(0.25)
      elif "gamma" in nm:
        v = v + np.float32(1.0)
      elif w.ndim == 1:
        v = v * np.float32(0.5) + np.float32(0.03 * (j + 1))
      new.append(v.astype(np.float32))
    l.set_weights(new)


def fresh(q):
  return None if q is None else type(q).from_config(copy.deepcopy(q.get_config()))


def layer_qw(layer):
  cn = layer.__class__.__name__
  qs = layer.get_quantizers()
  if cn in ("QSimpleRNN", "QLSTM", "QGRU"):
    qs = qs[:-1]
  elif cn == "QBidirectional":
    # the wrapper reports [forward kernel, recurrent, bias, state, backward kernel, recurrent, bias, state]; its weights
    # are [forward kernel, recurrent, bias, backward kernel, recurrent, bias]: the quantizer of each WEIGHT is what
    # the statement is about
    nf = len(layer.forward_layer.get_weights())
    f, b = layer.forward_layer.get_quantizers(), layer.backward_layer.get_quantizers()
    qs = list(f[:nf]) + list(b[:len(layer.backward_layer.get_weights())])
  return list(qs), layer.get_weights()


def _eq_dict(a, b):
  if type(a) is not type(b) and not (isinstance(a, (np.ndarray, np.generic)) or isinstance(b, (np.ndarray, np.generic))):
    return False
  if isinstance(a, dict):
    return a.keys() == b.keys() and all(_eq_dict(a[k], b[k]) for k in a)
  if isinstance(a, (list, tuple)):
    return len(a) == len(b) and all(_eq_dict(x, y) for x, y in zip(a, b))
  try:
    return bool(np.array_equal(np.asarray(a), np.asarray(b)))
  except Exception:  # pylint: disable=broad-except
    return a == b


def check_export(model, before, dic, bad, hist, xs):
  """Everything the statement says about one export."""
  tf = common.tf_init()
  evals = 0
  info = {"sign": 0, "scale": 0, "fuse": 0, "changed": 0}
  for layer in model.layers:
    if not hasattr(layer, "get_quantizers"):
      continue
    cn = layer.__class__.__name__
    qs, new_w = layer_qw(layer)
    old_w = before[layer.name]
    entry = dic.get(layer.name)
    if entry is None:
      bad("dictionary-missing-layer", "history %r: layer %s has no dictionary entry" % (hist, layer.name), cn)
      continue
    for i, (q, w_old, w_new) in enumerate(zip(qs, old_w, new_w)):
      evals += 1
      want = w_old if q is None else np.asarray(fresh(q)(tf.constant(w_old)), dtype=np.float32)
      if not np.array_equal(w_new, want):
        bad("weights!=quantizer(previous):%s" % type(q).__name__, "history %r: layer %s weight %d is not its quantizer applied once "
            "to the previous weight (max |d| = %g)" % (hist, layer.name, i, float(np.max(np.abs(w_new.astype(np.float64) - want)))), cn)
      if np.any(w_new != w_old):
        info["changed"] = 1
      qn = type(q).__name__ if q is not None else ""
      hw = entry["weights"][i] if i < len(entry["weights"]) else None
      if hw is None:
        bad("dictionary-weights-length", "history %r: layer %s exports %d weights for %d tensors" % (
            hist, layer.name, len(entry["weights"]), len(new_w)), cn)
        continue
      if "_po2" in qn:
        info["sign"] = 1
        if qn == "quantized_po2":
          signs = entry.get("signs")
          if signs is None or i >= len(signs) or np.size(signs[i]) != np.size(w_new):
            bad("signs-misaligned", "history %r: layer %s: no sign tensor at index %d for its power-of-two weight (signs has %s entries)" % (
                hist, layer.name, i, None if signs is None else len(signs)), cn)
            continue
          sign = np.asarray(signs[i], dtype=np.float64)
        else:
          sign = np.ones(w_new.shape)
        rebuilt = sign * 2.0 ** np.asarray(hw, dtype=np.float64)
        if not np.array_equal(rebuilt, w_new.astype(np.float64)):
          bad("po2:sign*2^exponent", "history %r: layer %s weight %d: sign*2^exponent != stored weight" % (hist, layer.name, i), cn)
      elif qn == "quantized_bits" and q.alpha == "auto_po2":
        info["scale"] = 1
        scales = entry.get("scales")
        if scales is None or i >= len(scales) or np.size(scales[i]) == 0:
          bad("scales-misaligned", "history %r: layer %s: no scale at index %d for its auto_po2 weight" % (hist, layer.name, i), cn)
          continue
        sc = np.asarray(scales[i], dtype=np.float64)
        z = np.asarray(hw, dtype=np.float64)
        m, e = np.frexp(sc)
        if not np.all(m == 0.5):
          bad("auto_po2:scale-po2", "history %r: layer %s: exported scale %r is not a power of two" % (hist, layer.name, sc.reshape(-1)[:3]), cn)
        if not np.array_equal(z, np.round(z)) or np.abs(z).max() > 2 ** (q.bits - 1):
          bad("auto_po2:integer-range", "history %r: %s layer %s: exported weights %r are not integers of %d bits "
              "(exported scale %r)" % (hist, cn, layer.name, np.unique(z)[:5], q.bits, sc.reshape(-1)[:2]))
        elif not np.array_equal(sc * z, w_new.astype(np.float64)):
          bad("auto_po2:scale*integer", "history %r: layer %s: scale*integer != stored weight (e.g. %r*%r vs %r)" % (
              hist, layer.name, float(np.broadcast_to(sc, z.shape).reshape(-1)[0]), float(z.reshape(-1)[0]),
              float(w_new.reshape(-1)[0])), cn)
      else:
        if not np.array_equal(np.asarray(hw), w_new):
          bad("dictionary-weights", "history %r: layer %s weight %d: exported weight != stored weight" % (hist, layer.name, i), cn)
    if entry.get("enable_bn_fusing") and cn != "QBatchNormalization":
      info["fuse"] = 1
      bn = model.get_layer(entry["fused_bn_layer_name"])
      bq = bn.get_quantizers()
      bw = before[bn.name]
      idx = 0
      gamma, beta = 1.0, 0.0

      def ap(q, w):
        return w.astype(np.float64) if q is None else np.asarray(fresh(q)(tf.constant(w)), dtype=np.float64)
      if bn.scale:
        gamma = ap(bn.gamma_quantizer_internal, bw[idx]); idx += 1
      if bn.center:
        beta = ap(bn.beta_quantizer_internal, bw[idx]); idx += 1
      mean = ap(bn.mean_quantizer_internal, bw[idx]); idx += 1
      var = ap(bn.variance_quantizer_internal, bw[idx])
      inv = gamma / np.sqrt(var + bn.epsilon)
      bias = new_w[-1].astype(np.float64) if layer.use_bias else 0.0
      fb = inv * bias + beta - inv * mean
      evals += 2
      if not np.allclose(entry["bn_inv"], inv, rtol=1e-6, atol=1e-9):
        bad("bn_inv", "history %r: layer %s: bn_inv != gamma_q/sqrt(var_q+eps)" % (hist, layer.name), cn)
      if not np.allclose(entry["fused_bias"], fb, rtol=1e-6, atol=1e-7):
        bad("fused_bias", "history %r: layer %s: fused_bias != inv*bias + beta_q - inv*mean_q (max |d| = %g)" % (
            hist, layer.name, float(np.max(np.abs(np.asarray(entry["fused_bias"], dtype=np.float64) - fb)))), cn)
  return evals, info


def run_case(case):
  tf = common.tf_init()
  common.reset_keras()
  from qkeras import utils as qutils  # pylint: disable=import-outside-toplevel
  viol = []
  kqs = "+".join(l["kq"] for l in case["layers"])

  def bad(clause, what, cn=""):
    key = "%s%s" % (clause, (":" + cn) if cn else "")
    if len(viol) < 6 and not any(v["key"] == key for v in viol):
      viol.append({"key": key, "what": "%s [kernel quantizers %s]" % (what, kqs), "detail": {"case": case}})
  indep_nofreeze = all(l["kq"] in DATA_INDEP for l in case["layers"])
  freezable = all(l["kind"] in FREEZABLE for l in case["layers"])
  states = evals = 0
  nontriv = 0
  digests = []
  for hist in HISTORIES:
    if hist[0] == "freeze" and not freezable:
      continue
    common.reset_keras()
    model, xshape = build(case)
    xs = [common.tensor(xshape, "ramp", case["_seed"]), common.tensor(xshape, "signs", case["_seed"])]
    frozen = False
    prev_dic = None
    for op in hist:
      if op == "freeze":
        try:
          model, _ = qutils.clone_model_and_freeze_auto_po2_scale(orig_model=model, quantize_model_weights=False)
        except Exception as e:  # pylint: disable=broad-except
          bad("freeze-raises:%s" % type(e).__name__, "history %r: freezing raised %s: %s" % (hist, type(e).__name__, str(e)[:200]))
          break
        frozen = True
        continue
      y_before = [np.asarray(model(tf.constant(x), training=False), dtype=np.float32) for x in xs]
      before = {l.name: [w.copy() for w in l.get_weights()] for l in model.layers}
      try:
        dic = qutils.model_save_quantized_weights(model)
      except Exception as e:  # pylint: disable=broad-except
        bad("export-raises:%s" % type(e).__name__, "history %r: export raised %s: %s" % (hist, type(e).__name__, str(e)[:200]))
        break
      states += 1
      n, info = check_export(model, before, dic, bad, hist, xs)
      evals += n
      if info["changed"] and (info["sign"] or info["scale"] or info["fuse"]):
        nontriv = 1
      y_after = [np.asarray(model(tf.constant(x), training=False), dtype=np.float32) for x in xs]
      digests.append(common.digest(*y_after))
      indep = indep_nofreeze or (frozen and all(l["kq"] in DATA_INDEP or "auto_po2" in l["kq"] for l in case["layers"]))
      if indep:
        evals += 1
        if any(not np.array_equal(a, b) for a, b in zip(y_before, y_after)):
          bad("predictions-changed", "history %r: the export changed the predictions although every scale is data independent "
              "(max |d| = %g)" % (hist, max(float(np.max(np.abs(a.astype(np.float64) - b))) for a, b in zip(y_before, y_after))))
        if prev_dic is not None:
          evals += 1
          if any(not np.array_equal(a, b) for l in model.layers for a, b in zip(before[l.name], l.get_weights())):
            bad("second-export-changes-weights", "history %r: a second export changed the weights" % (hist,))
          if not _eq_dict(prev_dic, dic):
            bad("second-export-changes-dictionary", "history %r: a second export returned a different dictionary" % (hist,))
      prev_dic = dic
    else:
      # sparsity consumer on the final state
      try:
        sp = qutils.get_model_sparsity(model)
        allw = []
        for l in model.layers:
          if hasattr(l, "quantizers") and l.__class__.__name__ in ("QDense", "QConv1D", "QConv2D", "QDepthwiseConv2D",
                                                                 "QSeparableConv2D", "QSimpleRNN", "QLSTM", "QGRU"):
            allw += [w.ravel() for w in l.get_weights()]   # (QBidirectional is not in the library's sparsity allow-list)
        want = float(np.mean(np.concatenate(allw) == 0)) if allw else 0.0
        evals += 1
        if abs(sp - want) > 1e-12:
          bad("sparsity", "history %r: get_model_sparsity = %r, zero fraction of the exported weights = %r" % (hist, sp, want))
      except Exception as e:  # pylint: disable=broad-except
        bad("sparsity-raises:%s" % type(e).__name__, "get_model_sparsity raised %s: %s" % (type(e).__name__, str(e)[:160]))
  return {"evals": evals, "transitions": states, "nontrivial": nontriv,
          "state_keys": ["%r|%d" % (case["layers"], i) for i in range(states + 1)],
          "digest": common.digest(digests), "violations": viol, "traces": states,
          "sample": {"layers": case["layers"], "exports": states}}

# (appended: sub-lattices added after the seeded waves; kept out of the original RULE text for readability)
RULE = RULE + '; kernel quantizer kinds include 3-bit auto_po2 on bell-shaped weights and po2 with a max_value that is not a power of two; layer kinds include a grouped convolution and QBidirectional with an explicit backward layer'
