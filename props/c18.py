"""C18 - bit widths reported for a concrete model bound the values it really produces.

Kernel P.  Programs: stacks of 1-3 weight layers from {QDense, QConv1D, QConv2D, QDepthwiseConv2D} with a
QActivation between consecutive layers, with/without bias, weight quantizer kind x input quantizer.  For every
program the real QTools(...) is run and, for every weight layer,
  * the effective (quantized) kernel and bias, and every activation tensor, must be members of vals(type) of the
    quantizer type reported for them (model of mc/qtypes.py, raw convention of _layer_map);
  * every pre-activation the layer can produce must be a member of vals(accumulator type reported) -- the
    scale-adjusted `fused_accumulator` entry when the kernel is quantized_bits(alpha='auto_po2'):
      - observed: the real model is run on inputs drawn from the extremes of the input type (all-max, all-min,
        alternating, checkerboard) and every layer output is captured through real Keras sub-models;
      - worst case: per output channel the sign-aligned extreme sums  sum_j max/min(w_jc*x) + b_c  are evaluated
        exactly (dyadic arithmetic) from the effective weights and the extremes of the reported input type;
  * analyze_accumulator(model, ranges)[layer] >= log2(max |worst-case output|) for every channel.
"""
import numpy as np

from mc import common
from mc import qtypes

ID = "C18"
TITLE = "bit widths reported for a concrete model bound the values it really produces"
TECHNIQUE = ("exhaustive enumeration of bounded layer-stack programs x weight patterns on the real QTools; exact "
             "membership of observed tensors and of sign-aligned worst-case sums in the value-set model of the "
             "reported types")
RULE = ("cases = (program: layer kinds x weight quantizer kind x bias x input quantizer, weight pattern); evaluations = "
        "tensors / worst-case sums whose membership was decided; non-trivial = programs in which some worst-case sum "
        "uses more integer bits than both the input and the weight type")
ASSUMPTIONS = [
    "value-set model of mc/qtypes.py for the reported types (conformance: C16); raw _layer_map convention: int_bits "
    "exclude the sign bit",
    "binary / ternary kernels with unit scale only (a data-dependent real scale makes products non-dyadic); weight "
    "quantizers of auto_po2 kind are judged against the fused_accumulator entry and their codes against the weight type",
    "layers are built without fused activations, so a layer's output is its pre-activation; stacks of at most 3 weight "
    "layers; worst-case inputs are the extremes of the reported input type",
]

WQ = {
    "fixed": ("quantized_bits(4,1,1,alpha=1)", "quantized_bits(6,2,1,alpha=1)"),
    "fixed_narrow": ("quantized_bits(2,0,1,alpha=1)", "quantized_bits(4,1,1,alpha=1)"),
    "po2": ("quantized_po2(3)", "quantized_bits(6,2,1,alpha=1)"),
    "po2_bias": ("quantized_bits(4,1,1,alpha=1)", "quantized_po2(3)"),
    "binary": ("binary(alpha=1)", "quantized_bits(4,1,1,alpha=1)"),
    "ternary": ("ternary(alpha=1)", "quantized_bits(4,1,1,alpha=1)"),
    "auto_po2": ("quantized_bits(5,1,1,alpha='auto_po2')", "quantized_bits(6,2,1,alpha=1)"),
    # power-of-two kernels with 4 bits, without / with a max_value that is not a power of two (the quantizer rounds the
    # exponent of the clipped value: max_value 3 -> 4, 6 -> 8); bias wide enough not to hide an integer bit
    "po2_4": ("quantized_po2(4)", "quantized_bits(8,4,1,alpha=1)"),
    "po2_mv3": ("quantized_po2(4,max_value=3)", "quantized_bits(8,4,1,alpha=1)"),
    "po2_mv6": ("quantized_po2(4,max_value=6)", "quantized_bits(8,4,1,alpha=1)"),
    # stochastic kernels (deterministic at inference): same value sets as ternary / binary
    "sternary": ("stochastic_ternary(alpha=1)", "quantized_bits(4,1,1,alpha=1)"),
    "sbinary": ("stochastic_binary(alpha=1)", "quantized_bits(4,1,1,alpha=1)"),
}
WQ_BASE = ["fixed", "fixed_narrow", "po2", "po2_bias", "binary", "ternary", "auto_po2"]
IQ = {"q4": "quantized_bits(4,1,1)", "q3": "quantized_bits(3,0,1)", "relu": "quantized_relu(3,1)",
      # power-of-two activations, with and without max_value: po2 x po2 products are exponent additions
      "rpo2": "quantized_relu_po2(3)", "rpo2_mv2": "quantized_relu_po2(3,max_value=2)"}
IQ_BASE = ["q4", "q3", "relu"]
AQ = "quantized_relu(3,1)"
# QConv2DBatchnorm: the folded layer (kernel and bias are the FOLDED weights; a folded bias exists even with use_bias=False);
# its input has 4 channels so that the 2x2 kernel sums 16 = 2^4 products
KINDS = ["QDense", "QConv1D", "QConv2D", "QDepthwiseConv2D", "QConv2DBatchnorm"]
PATTERNS = ["grid7", "max", "min", "alternating"]


def bound(tier):
  return {"stack_depth": 2 if tier == "quick" else 3, "kinds": KINDS, "weight_quantizers": list(WQ),
          "input_quantizers": list(IQ), "weight_patterns": PATTERNS}


def worker_init():
  common.tf_init()


def enumerate_cases(tier, seed):
  out = []
  for kind in KINDS:
    for wq in WQ:
      if kind == "QConv2DBatchnorm" and wq not in ("fixed", "fixed_narrow", "ternary"):
        continue
      for use_bias in (True, False):
        for iq in IQ:
          if wq in ("sternary", "sbinary"):
            if iq != "q4":
              continue
          elif (wq not in WQ_BASE or iq not in IQ_BASE) and not (
              wq in ("po2", "po2_4", "po2_mv3", "po2_mv6", "fixed") and (iq not in IQ_BASE or wq not in WQ_BASE)):
            continue
          for pat in PATTERNS:
            out.append(dict(layers=[dict(kind=kind, wq=wq, use_bias=use_bias)], iq=iq, pattern=pat, _seed=seed))
  # histories: QTools is run on the SAME model object twice - first with other weights (another data-dependent scale), then
  # with the weights under test: the second report describes the second state
  for kind in KINDS[:4]:
    for prelude in ("small-first", "large-first"):
      for pat in ("grid7", "max"):
        out.append(dict(layers=[dict(kind=kind, wq="auto_po2", use_bias=True)], iq="q4", pattern=pat, prelude=prelude, _seed=seed))
  pairs = [("QConv2D", "QDense"), ("QDense", "QDense"), ("QConv2D", "QDepthwiseConv2D"), ("QDepthwiseConv2D", "QConv2D"),
           ("QConv1D", "QDense")]
  for k1, k2 in pairs:
    for w1 in WQ_BASE:
      for w2 in (("fixed", "po2", "ternary", "auto_po2") if tier == "quick" else WQ_BASE):
        out.append(dict(layers=[dict(kind=k1, wq=w1, use_bias=True), dict(kind=k2, wq=w2, use_bias=True)],
                        iq="q4", pattern="grid7", _seed=seed))
  if tier == "thorough":
    for w1 in WQ_BASE:
      for w2 in WQ_BASE:
        for w3 in ("fixed", "po2", "auto_po2"):
          out.append(dict(layers=[dict(kind="QConv2D", wq=w1, use_bias=True), dict(kind="QConv2D", wq=w2, use_bias=False),
                                  dict(kind="QDense", wq=w3, use_bias=True)], iq="q3", pattern="alternating", _seed=seed))
  return out


def build(case):
  tf = common.tf_init()
  import qkeras  # pylint: disable=import-outside-toplevel
  L = tf.keras.layers
  first = case["layers"][0]["kind"]
  shape = {"QDense": (5,), "QConv1D": (5, 3), "QConv2DBatchnorm": (5, 5, 4)}.get(first, (5, 5, 3))
  x = inp = L.Input(shape, name="inp")
  for i, ly in enumerate(case["layers"]):
    kq, bq = WQ[ly["wq"]]
    name = "l%d" % i
    kind = ly["kind"]
    if i > 0:
      x = qkeras.QActivation(AQ, name="act%d" % i)(x)
    if kind == "QDense":
      if len(x.shape) > 2:
        x = L.Flatten(name="flat%d" % i)(x)
      x = qkeras.QDense(3, kernel_quantizer=kq, bias_quantizer=bq, use_bias=ly["use_bias"], name=name)(x)
    elif kind == "QConv1D":
      x = qkeras.QConv1D(2, 2, kernel_quantizer=kq, bias_quantizer=bq, use_bias=ly["use_bias"], name=name)(x)
    elif kind == "QConv2D":
      x = qkeras.QConv2D(2, 2, kernel_quantizer=kq, bias_quantizer=bq, use_bias=ly["use_bias"], name=name)(x)
    elif kind == "QConv2DBatchnorm":
      x = qkeras.QConv2DBatchnorm(2, 2, kernel_quantizer=kq, bias_quantizer=bq, use_bias=ly["use_bias"], name=name)(x)
    else:
      x = qkeras.QDepthwiseConv2D(2, depthwise_quantizer=kq, bias_quantizer=bq, use_bias=ly["use_bias"], name=name)(x)
  model = tf.keras.Model(inp, x)
  return model, shape


def set_weights(model, pattern, seed):
  for i, l in enumerate(model.layers):
    ws = l.get_weights()
    if not ws:
      continue
    new = []
    for j, w in enumerate(ws):
      if pattern == "grid7":
        v = common.tensor(w.shape, "grid7", i + j + seed) * np.float32(1.7)
      elif pattern == "max":
        v = np.full(w.shape, 100.0, dtype=np.float32)
      elif pattern == "min":
        v = np.full(w.shape, -100.0, dtype=np.float32)
      else:
        v = (100.0 * (1 - 2 * (np.arange(w.size) % 2))).astype(np.float32).reshape(w.shape)
      nm = l.weights[j].name
      if w.ndim == 0:
        v = w                                  # iteration counter of a folded layer
      elif "variance" in nm:
        v = np.abs(v) * np.float32(0.01) + np.float32(0.5)
      elif "gamma" in nm or "moving_mean" in nm or "beta" in nm:
        v = v * np.float32(0.01)               # batch-norm parameters of order one
      new.append(np.asarray(v, dtype=np.float32))
    l.set_weights(new)


def input_patterns(shape, d, sym=False):
  mn, mx, _ = qtypes.extremes(d)
  if sym and mn < -mx:
    mn = -mx
  n = int(np.prod(shape))
  pats = [np.full(n, mx), np.full(n, mn), np.where(np.arange(n) % 2 == 0, mx, mn), np.where((np.arange(n) // 3) % 2 == 0, mn, mx)]
  return [p.astype(np.float32).reshape((1,) + tuple(shape)) for p in pats]


def gv(entry, key):
  """Entries of the data-type map are dicts for weight layers and named tuples for the others."""
  return entry.get(key) if isinstance(entry, dict) else getattr(entry, key, None)


def run_case(case):
  tf = common.tf_init()
  common.reset_keras()
  from qkeras import quantizers as Q  # pylint: disable=import-outside-toplevel
  from qkeras.qtools import run_qtools, settings as qsettings  # pylint: disable=import-outside-toplevel
  from qkeras import estimate  # pylint: disable=import-outside-toplevel
  viol = []
  tags = "+".join(l["wq"] for l in case["layers"])

  def bad(clause, what, kind="", wq=""):
    key = "%s%s%s" % (clause, (":" + kind) if kind else "", (":" + wq) if wq else "")
    if len(viol) < 6 and not any(v["key"] == key for v in viol):
      viol.append({"key": key, "what": "%s [program %s, input %s, weights %s]" % (
          what, [(l["kind"], l["wq"], l["use_bias"]) for l in case["layers"]], case["iq"], case["pattern"]),
                   "detail": {"case": case}})
  model, shape = build(case)
  set_weights(model, case["pattern"], case["_seed"])
  src_q = Q.get_quantizer(IQ[case["iq"]])
  # one forward pass so that data-dependent quantizers record their scale before QTools reads it
  from qkeras.qtools.quantized_operators import quantizer_factory  # pylint: disable=import-outside-toplevel
  in_den = qtypes.den(quantizer_factory.QuantizerFactory().make_quantizer(src_q))
  # The product most-negative weight x most-negative input is the one product the multiplier type is excused
  # from holding (C16); when the first layer's kernel contains its type's most negative value the inputs are
  # therefore drawn from the symmetric range [-max, max].
  first = [l for l in model.layers if l.__class__.__name__ in KINDS][0]
  k0 = np.asarray(first.get_quantizers()[0](tf.constant(first.get_weights()[0])), dtype=np.float64)
  sym0 = bool(k0.min() < 0 and k0.min() <= -np.abs(k0).max())
  xs = input_patterns(shape, in_den, sym=sym0)
  if case.get("prelude"):
    real = [l.get_weights() for l in model.layers]
    for l in model.layers:
      if l.get_weights():
        f = np.float32(1.0 / 64) if case["prelude"] == "small-first" else np.float32(16.0)
        l.set_weights([(w * f).astype(np.float32) for w in l.get_weights()])
    model(tf.constant(xs[0]))
    run_qtools.QTools(model, process="horowitz", source_quantizers=[src_q], is_inference=False,
                      keras_quantizer="fp32", keras_accumulator="fp32", for_reference=False)
    for l, ws in zip(model.layers, real):
      if ws:
        l.set_weights(ws)
  model(tf.constant(xs[0]))
  qt = run_qtools.QTools(model, process="horowitz", source_quantizers=[src_q], is_inference=False,
                         keras_quantizer="fp32", keras_accumulator="fp32", for_reference=False)
  lmap = qt._layer_map["layer_data_type_map"]   # pylint: disable=protected-access
  evals = 0
  nontriv = 0
  # real forward passes: capture every layer output
  taps = tf.keras.Model(model.inputs, [l.output for l in model.layers[1:]])
  observed = {l.name: [] for l in model.layers[1:]}
  for x in xs:
    outs = taps(tf.constant(x))
    outs = outs if isinstance(outs, (list, tuple)) else [outs]
    for l, o in zip(model.layers[1:], outs):
      observed[l.name].append(np.asarray(o, dtype=np.float64))
  ranges = {}
  digest_acc = []
  for li, layer in enumerate(model.layers):
    cn = layer.__class__.__name__
    if layer not in lmap:
      continue
    entry = lmap[layer]
    if cn == "QActivation":
      od = qtypes.den(gv(entry, "output_quantizer"))
      vals = np.concatenate([o.reshape(-1) for o in observed[layer.name]])
      evals += 1
      ok = qtypes.contains(od, vals)
      if not ok.all():
        bad("activation-type", "QActivation %s emits %r, not in the reported output type %r" % (
            layer.name, float(vals[~ok][0]), od), cn)
      continue
    if cn not in KINDS:
      continue
    ly = case["layers"][int(layer.name[1:])]
    wq = ly["wq"]
    quants = layer.get_quantizers()
    raw = layer.get_weights()
    if cn == "QConv2DBatchnorm":
      fk, fb = layer.get_folded_weights()
      eff = [np.asarray(q(fw), dtype=np.float64) if q is not None else np.asarray(fw, dtype=np.float64)
             for q, fw in zip(quants, (fk, fb))]
      kernel, bias = eff[0], eff[1]
    else:
      eff = [np.asarray(q(tf.constant(w)), dtype=np.float64) if q is not None else w.astype(np.float64)
             for q, w in zip(quants, raw)]
      kernel = eff[0]
      bias = eff[1] if layer.use_bias else None
    # --- weights / bias fit their reported types ----------------------------------------------------
    wd = qtypes.den(gv(entry, "weight_quantizer"))
    kcodes = kernel
    if wq == "auto_po2":
      sc = np.asarray(quants[0].scale, dtype=np.float64)
      kcodes = kernel / np.broadcast_to(sc, kernel.shape)
    evals += 1
    okw = qtypes.contains(wd, kcodes.reshape(-1))
    if not okw.all():
      bad("weight-type", "%s kernel value %r is not in the reported weight type %r" % (
          layer.name, float(kcodes.reshape(-1)[~okw][0]), wd), cn, wq)
    if bias is not None and gv(entry, "bias_quantizer") is not None:
      bd = qtypes.den(gv(entry, "bias_quantizer"))
      evals += 1
      okb = qtypes.contains(bd, bias.reshape(-1))
      if not okb.all():
        bad("bias-type", "%s bias value %r is not in the reported bias type %r" % (layer.name, float(bias[~okb][0]), bd), cn, wq)
    # --- the JSON view is the documented transform of the raw map (fixed point: int_bits + is_signed) ---------
    jd = qt._output_dict.get(layer.name, {})     # pylint: disable=protected-access
    for key, raw in (("weight_quantizer", gv(entry, "weight_quantizer")), ("bias_quantizer", gv(entry, "bias_quantizer")),
                     ("multiplier", gv(entry, "multiplier").output), ("accumulator", gv(entry, "accumulator").output),
                     ("output_quantizer", gv(entry, "output_quantizer"))):
      if raw is None or key not in jd:
        continue
      j = jd[key]
      evals += 1
      if raw.is_floating_point or getattr(raw, "is_po2", 0) or raw.mode != 0:
        ok_j = j.get("bits") == raw.bits
      else:
        ok_j = (j.get("bits") == raw.bits and j.get("int_bits") == raw.int_bits + int(bool(raw.is_signed)) and
                bool(j.get("is_signed")) == bool(raw.is_signed))
      if not ok_j:
        bad("json-view:" + key, "%s: JSON view %r is not the documented transform of the raw type (bits %r, int_bits %r, "
            "signed %r)" % (layer.name, dict(j), raw.bits, raw.int_bits, raw.is_signed), cn)
    # --- accumulator -----------------------------------------------------------------------------------
    acc_entry = gv(entry, "fused_accumulator") if wq == "auto_po2" else gv(entry, "accumulator")
    ad = qtypes.den(acc_entry.output)
    digest_acc.append(repr(ad))
    # observed pre-activations
    vals = np.concatenate([o.reshape(-1) for o in observed[layer.name]])
    evals += 1
    oko = qtypes.contains(ad, vals)
    if not oko.all():
      v = vals[~oko][0]
      amin, amax, _ = qtypes.extremes(ad)
      rel = "magnitude" if (v > amax or v < amin) else "resolution"
      bad("observed-preactivation:" + rel, "%s produced %r, not representable in the reported accumulator %r" % (
          layer.name, float(v), ad), "", wq)
    # worst case from the reported input type
    ind = qtypes.den(gv(entry, "input_quantizer_list")[0])
    if ind.kind in ("float", "empty"):
      continue
    xmin, xmax, xl = qtypes.extremes(ind)
    wmin_t = qtypes.extremes(wd)[0] if wd.kind not in ("float", "empty") else 0
    if xmin < -xmax and wmin_t < 0 and np.any(kcodes == wmin_t):
      xmin = -xmax      # excused most-negative x most-negative products, see above
    if cn == "QDepthwiseConv2D":
      k2 = kernel.reshape(-1, kernel.shape[-2] * kernel.shape[-1])   # (taps, cin*dm): one column per output channel
    else:
      k2 = kernel.reshape(-1, kernel.shape[-1])
    b = bias if bias is not None else np.zeros(k2.shape[1])
    hi = np.sum(np.maximum(k2 * xmax, k2 * xmin), axis=0) + b
    lo = np.sum(np.minimum(k2 * xmax, k2 * xmin), axis=0) + b
    # finest contribution: smallest-magnitude non-zero weight times the input lsb (plus the bias of that channel)
    nz = np.abs(np.where(k2 == 0, np.inf, k2))
    fine = np.min(nz, axis=0)
    fine = np.where(np.isfinite(fine), fine, 0.0) * xl + b
    cand = np.concatenate([hi, lo, fine])
    evals += int(cand.size)
    okc = qtypes.contains(ad, cand)
    if not okc.all():
      v = cand[~okc][0]
      amin, amax, _ = qtypes.extremes(ad)
      rel = "magnitude" if (v > amax or v < amin) else "resolution"
      bad("worst-case-preactivation:" + rel, "%s can produce %r (inputs at the extremes %r/%r of the reported input type), "
          "not representable in the reported accumulator %r" % (layer.name, float(v), xmin, xmax, ad), "", wq)
    wmin, wmax, _ = qtypes.extremes(wd) if wd.kind not in ("float", "empty") else (0, 0, 0)
    if np.max(np.abs(np.concatenate([hi, lo]))) > max(abs(xmin), abs(xmax)) * 2 and np.max(np.abs(np.concatenate([hi, lo]))) > max(abs(wmin), abs(wmax)) * 2:
      nontriv = 1
    ranges[layer.name] = (xmin, xmax, np.maximum(np.abs(hi), np.abs(lo)))
  # --- weight-based estimator (plain layers only: it is handed the effective weights through set_weights) ----------
  try:
    if any(l["kind"] == "QConv2DBatchnorm" for l in case["layers"]):
      raise StopIteration
    # analyze_accumulator reads layer.get_weights(): hand it the effective weights
    m2 = tf.keras.models.clone_model(model)
    m2.set_weights(model.get_weights())
    for l in m2.layers:
      if l.__class__.__name__ in KINDS:
        qs, ws = l.get_quantizers(), l.get_weights()
        l.set_weights([np.asarray(q(tf.constant(w)), dtype=np.float32) if q is not None else w for q, w in zip(qs, ws)])
    sizes = estimate.analyze_accumulator(m2, {n: (r[0], r[1]) for n, r in ranges.items()})
    for n, (xmin, xmax, mags) in ranges.items():
      evals += 1
      need = np.log2(np.max(mags)) if np.max(mags) > 0 else -np.inf
      if n in sizes and sizes[n] < need - 1e-9:
        kind = model.get_layer(n).__class__.__name__
        bad("analyze_accumulator", "analyze_accumulator reports %d bits for %s but some channel reaches |%r| = 2^%.3f" % (
            sizes[n], n, float(np.max(mags)), need), kind)
  except StopIteration:
    pass
  except Exception as e:  # pylint: disable=broad-except
    bad("analyze_accumulator-raises:%s" % type(e).__name__, "analyze_accumulator raised %s: %s" % (type(e).__name__, str(e)[:160]))
  return {"evals": evals, "transitions": len(xs) + 1, "nontrivial": nontriv,
          "state": repr([(l["kind"], l["wq"], l["use_bias"]) for l in case["layers"]]) + case["iq"] + case["pattern"] + case.get("prelude", ""),
          "digest": common.digest(digest_acc, [o[0] for o in observed.values() if o]), "violations": viol, "traces": evals,
          "sample": {"program": case["layers"], "input_quantizer": IQ[case["iq"]], "weight_pattern": case["pattern"],
                     "accumulators": digest_acc}}

# (appended: sub-lattices added after the seeded waves; kept out of the original RULE text for readability)
RULE = RULE + '; weight kinds include stochastic kernels and po2 with max_value 3 / 6, input types include po2 activations, layer kinds include the folded QConv2DBatchnorm; histories: QTools run twice on one model object with other weights first'
